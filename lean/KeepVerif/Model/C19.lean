import KeepVerif.Model.C19Wire
/-!
# C19 model: every `Unmarshal` of the anchored files followed by the type's own `Marshal`

`unmarshal ty bytes : Option (Option Bytes)`
* `none`            – unknown type, or a needed library-parse result is missing from the oracle (`SKIP`)
* `some none`       – `Unmarshal` returns an error
* `some (some out)` – accepted; `out` = canonical re-marshal (deterministic map order)

The model is a total function, it has no third outcome: a panic of the Go code is a disagreement.
Models follow the code of the *repaired* tree (fix commits recorded in findings/C19.json); the
behaviour of the unrepaired `signer.Unmarshal` and gjkr accusation decoders is modelled separately
(`signerOrig`, `accusationsOrig`) for the counterexample theorems.
-/
namespace KeepVerif.C19

/-! ## generic flat message specs (scalar fields only) — the part with the generic theorem -/

inductive Kind where
  | u32 | u64 | bytes | str
  | i32   -- kept as the raw 64-bit varint value; the sign is interpreted by `post`
  | rbytes -- repeated bytes / string-free repeated field: every occurrence, in order
  deriving DecidableEq, Repr

inductive Val where
  | n (v : Nat)
  | b (bs : Bytes)
  | l (xs : List Bytes)
  deriving DecidableEq, Repr

structure FSpec where
  num : Nat
  kind : Kind
  deriving DecidableEq, Repr

/-- typed decoding of one declared field from the parsed field list -/
def decField (fs : List Field) (s : FSpec) : Option Val :=
  match s.kind with
  | .u32 => some (.n (lastVarint fs s.num % 4294967296))
  | .u64 => some (.n (lastVarint fs s.num))
  | .i32 => some (.n (lastVarint fs s.num))
  | .rbytes => some (.l (lens fs s.num))
  | .bytes => some (.b (lastLen fs s.num))
  | .str => if (lens fs s.num).all isUtf8 then some (.b (lastLen fs s.num)) else none

def decFlat (S : List FSpec) (fs : List Field) : Option (List Val) := S.mapM (decField fs)

/-- proto3 encoding of one scalar field: default values are omitted -/
def encField (s : FSpec) (v : Val) : List Field :=
  match v with
  | .n v => if v = 0 then [] else [(s.num, .varint v)]
  | .b b => if b = [] then [] else [(s.num, .len b)]
  | .l xs => xs.map fun b => (s.num, WVal.len b)

def encFlat : List FSpec → List Val → List Field
  | s :: S, v :: vs => encField s v ++ encFlat S vs
  | _, _ => []

/-- numeric form of a schema, compared with the lists generated from the Go descriptors -/
def Kind.code : Kind → Nat
  | .u32 => 0 | .u64 => 1 | .bytes => 2 | .str => 3 | .i32 => 4 | .rbytes => 12
def schemaCode (S : List FSpec) : List Nat := S.flatMap fun s => [s.num, s.kind.code]

/-- a flat message type: wire schema + keep-core's post-decoding validation / normalisation -/
structure MsgSpec where
  fields : List FSpec
  post : List Val → Option (List Val)

def MsgSpec.marshal (M : MsgSpec) (vs : List Val) : Bytes := putFields (encFlat M.fields vs)

def MsgSpec.unmarshal (M : MsgSpec) (bs : Bytes) : Option Bytes := do
  let fs ← parseMsg bs
  let vs ← decFlat M.fields fs
  let vs' ← M.post vs
  pure (M.marshal vs')

/-! ## helpers of the keep-core side -/

/-- `new(big.Int).SetBytes(b).Bytes()` -/
def stripZeros : Bytes → Bytes
  | 0 :: r => stripZeros r
  | bs => bs

def natOfBytes (bs : Bytes) : Nat := bs.foldl (fun a b => a * 256 + b) 0

/-- `validateMemberIndex` -/
def idxOk (v : Nat) : Bool := decide (v ≤ 255)

def guard' (c : Bool) : Option Unit := if c then some () else none

/-! ### flat specs -/

/-- senderID / payload / sessionID messages -/
def simple3 : MsgSpec where
  fields := [⟨1, .u32⟩, ⟨2, .bytes⟩, ⟨3, .str⟩]
  post
    | [.n s, .b p, .b sess] => if idxOk s then some [.n s, .b p, .b sess] else none
    | _ => none

def finalization : MsgSpec where
  fields := [⟨1, .u32⟩, ⟨2, .str⟩]
  post
    | [.n s, .b sess] => if idxOk s then some [.n s, .b sess] else none
    | _ => none

def announcement : MsgSpec where
  fields := [⟨1, .u32⟩, ⟨2, .str⟩, ⟨3, .str⟩]
  post
    | [.n s, .b p, .b sess] => if idxOk s then some [.n s, .b p, .b sess] else none
    | _ => none

/-- sender / 32-byte hash / signature / public key / session -/
def hashSig : MsgSpec where
  fields := [⟨1, .u32⟩, ⟨2, .bytes⟩, ⟨3, .bytes⟩, ⟨4, .bytes⟩, ⟨5, .str⟩]
  post
    | [.n s, .b h, .b sg, .b pk, .b sess] =>
      if idxOk s && h.length == 32 then some [.n s, .b h, .b sg, .b pk, .b sess] else none
    | _ => none

def act1 : MsgSpec where
  fields := [⟨1, .bytes⟩, ⟨2, .str⟩]
  post
    | [.b nonce, .b p] => if nonce.length == 8 then some [.b nonce, .b p] else none
    | _ => none

def act2 : MsgSpec where
  fields := [⟨1, .bytes⟩, ⟨2, .bytes⟩, ⟨3, .str⟩]
  post
    | [.b nonce, .b ch, .b p] =>
      if nonce.length == 8 && ch.length == 32 then some [.b nonce, .b ch, .b p] else none
    | _ => none

def act3 : MsgSpec where
  fields := [⟨1, .bytes⟩]
  post
    | [.b ch] => if ch.length == 32 then some [.b ch] else none
    | _ => none

def heartbeat : MsgSpec where
  fields := [⟨1, .bytes⟩]
  post
    | [.b m] => if m.length == 16 then some [.b m] else none
    | _ => none

def movedFundsSweep : MsgSpec where
  fields := [⟨1, .bytes⟩, ⟨2, .u32⟩, ⟨3, .bytes⟩]
  post
    | [.b h, .n i, .b fee] => if h.length == 32 then some [.b h, .n i, .b (stripZeros fee)] else none
    | _ => none

/-- `tecdsa.Signature`: R, S big integers, recoveryID an int32 that must fit int8.
    The int32 is kept as its 64-bit two's-complement varint value. -/
def signature : MsgSpec where
  fields := [⟨1, .bytes⟩, ⟨2, .bytes⟩, ⟨3, .i32⟩]
  post
    | [.b r, .b s, .n id] =>
      let v := id % 4294967296           -- int32(v)
      if v ≤ 127 then some [.b (stripZeros r), .b (stripZeros s), .n v]
      else if 4294967168 ≤ v then        -- −128 … −1, sign-extended to 64 bits on the wire
        some [.b (stripZeros r), .b (stripZeros s), .n (v + 18446744069414584320)]
      else none
    | _ => none

/-- `tbtc.signingDoneMessage`; the signature field holds a `tecdsa.Signature` encoding -/
def signingDone : MsgSpec where
  fields := [⟨1, .u32⟩, ⟨2, .bytes⟩, ⟨3, .u64⟩, ⟨4, .bytes⟩, ⟨5, .u64⟩]
  post
    | [.n s, .b m, .n att, .b sg, .n eb] =>
      if idxOk s then
        match signature.unmarshal sg with
        | some sg' => some [.n s, .b (stripZeros m), .n att, .b sg', .n eb]
        | none => none
      else none
    | _ => none

/-! ## messages with repeated fields, maps and sub-messages (hand-composed) -/

def fU (num v : Nat) : List Field := if v = 0 then [] else [(num, .varint v)]
def fB (num : Nat) (b : Bytes) : List Field := if b = [] then [] else [(num, .len b)]
/-- a non-nil embedded message is always emitted, also when empty -/
def fM (num : Nat) (sub : List Field) : List Field := [(num, .len (putFields sub))]

/-- singular embedded message: every occurrence must parse; occurrences merge (= concatenation
    of their field lists). `none` = wire error, `some none` = absent. -/
def subMsg (fs : List Field) (num : Nat) : Option (Option (List Field)) :=
  match (lens fs num).mapM parseMsg with
  | none => none
  | some [] => some none
  | some ps => some (some ps.flatten)

/-- like `subMsg` but absent = empty (nil-safe getters) -/
def subMsgD (fs : List Field) (num : Nat) : Option (List Field) :=
  (subMsg fs num).map (·.getD [])

def strOk (fs : List Field) (num : Nat) : Bool := (lens fs num).all isUtf8

def mapInsert {α} (k : Nat) (v : α) : List (Nat × α) → List (Nat × α)
  | [] => [(k, v)]
  | (k', v') :: r =>
    if k < k' then (k, v) :: (k', v') :: r
    else if k = k' then (k, v) :: r
    else (k', v') :: mapInsert k v r

/-- `map<uint32, bytes>` field: entries in key order, later entries replace earlier ones -/
def mapBytes (fs : List Field) (num : Nat) : Option (List (Nat × Bytes)) := do
  let es ← (lens fs num).mapM parseMsg
  pure (es.foldl (fun m e => mapInsert (lastVarint e 1 % 4294967296) (lastLen e 2) m) [])

def encMapBytes (num : Nat) (m : List (Nat × Bytes)) : List Field :=
  m.map fun (k, v) => (num, .len (putFields [(1, .varint k), (2, .len v)]))

/-- sender / map of per-member payloads / session  (`mapNum`, `sessNum` vary) with an optional
    broadcast payload at field 2; `cv` validates and normalises one map value -/
def mapMsg (bcast : Bool) (mapNum sessNum : Nat) (cv : Bytes → Option Bytes)
    (bs : Bytes) : Option Bytes := do
  let fs ← parseMsg bs
  let m ← mapBytes fs mapNum
  guard' (strOk fs sessNum)
  let s := lastVarint fs 1 % 4294967296
  guard' (idxOk s)
  guard' (m.all fun (k, _) => idxOk k)
  let m' ← m.mapM fun (k, v) => (cv v).map fun v' => (k, v')
  pure (putFields (fU 1 s ++ (if bcast then fB 2 (lastLen fs 2) else []) ++
    encMapBytes mapNum m' ++ fB sessNum (lastLen fs sessNum)))

/-- `ephemeral.UnmarshalPrivateKey(b).Marshal()`: big-endian integer left-padded to 32 bytes -/
def privNorm (b : Bytes) : Bytes :=
  let s := stripZeros b
  List.replicate (32 - s.length) 0 ++ s

/-- accused / misbehaved members' private keys: non-empty, normalised -/
def privCv (v : Bytes) : Option Bytes := if v = [] then none else some (privNorm v)

/-- gjkr `PeerShares`: map<uint32, Shares{bytes, bytes}> (a missing value is an empty message) -/
def peerShares (bs : Bytes) : Option Bytes := do
  let fs ← parseMsg bs
  let es ← (lens fs 2).mapM parseMsg
  let vals ← es.mapM fun e => do
    let v ← subMsgD e 2
    pure (lastVarint e 1 % 4294967296, (lastLen v 1, lastLen v 2))
  let m := vals.foldl (fun m (kv : Nat × Bytes × Bytes) => mapInsert kv.1 kv.2 m) []
  guard' (strOk fs 3)
  let s := lastVarint fs 1 % 4294967296
  guard' (idxOk s)
  guard' (m.all fun (k, _) => idxOk k)
  pure (putFields (fU 1 s ++
    m.map (fun (k, (a, b)) => ((2, WVal.len (putFields [(1, WVal.varint k), (2, WVal.len (putFields (fB 1 a ++ fB 2 b)))])) : Field)) ++
    fB 3 (lastLen fs 3)))

/-- repeated uint64: unpacked occurrences and packed blocks, in order -/
def u64s (fs : List Field) (num : Nat) : Option (List Nat) :=
  let rec unpack : Nat → Bytes → Option (List Nat)
    | 0, _ => none
    | fuel + 1, bs =>
      if bs = [] then some [] else
      match getVarint 10 bs with
      | some (v, r) => (unpack fuel r).map (v :: ·)
      | none => none
  (fs.mapM fun (f : Field) => match f with
    | (n, WVal.varint v) => if n = num then some [v] else some []
    | (n, WVal.len b) => if n = num then unpack (b.length + 1) b else some []
    | _ => some []).map List.flatten

def packed (num : Nat) (vs : List Nat) : List Field :=
  if vs = [] then [] else [(num, .len (vs.flatMap putVarint))]

/-- `big.NewInt(int64(v)).Uint64()` -/
def absInt64 (v : Nat) : Nat := if v < 9223372036854775808 then v else 18446744073709551616 - v

def depositSweep (bs : Bytes) : Option Bytes := do
  let fs ← parseMsg bs
  let keys ← (lens fs 1).mapM parseMsg
  let blocks ← u64s fs 3
  guard' (keys.all fun k => (lastLen k 1).length == 32)
  pure (putFields (
    keys.map (fun k => (1, WVal.len (putFields (fB 1 (lastLen k 1) ++ fU 2 (lastVarint k 2 % 4294967296))))) ++
    fB 2 (stripZeros (lastLen fs 2)) ++ packed 3 (blocks.map absInt64)))

def redemptionSpec : MsgSpec where
  fields := [⟨1, .rbytes⟩, ⟨2, .bytes⟩]
  post
    | [.l scripts, .b fee] => some [.l scripts, .b (stripZeros fee)]
    | _ => none

def movingFundsSpec : MsgSpec where
  fields := [⟨1, .rbytes⟩, ⟨2, .bytes⟩]
  post
    | [.l ws, .b fee] => if ws.all (fun w => w.length == 20) then some [.l ws, .b (stripZeros fee)] else none
    | _ => none

def redemption (bs : Bytes) : Option Bytes := redemptionSpec.unmarshal bs
def movingFunds (bs : Bytes) : Option Bytes := movingFundsSpec.unmarshal bs

/-- `unmarshalCoordinationProposal` + the proposal's `Marshal` -/
def proposal (actionType : Nat) (payload : Bytes) : Option Bytes :=
  match actionType with
  | 0 => some []
  | 1 => heartbeat.unmarshal payload
  | 2 => depositSweep payload
  | 3 => redemption payload
  | 4 => movingFunds payload
  | 5 => movedFundsSweep.unmarshal payload
  | _ => none

def coordination (bs : Bytes) : Option Bytes := do
  let fs ← parseMsg bs
  let p ← subMsg fs 4
  let s := lastVarint fs 1 % 4294967296
  guard' (idxOk s)
  guard' ((lastLen fs 3).length == 20)
  let p ← p
  let at_ := lastVarint p 1 % 4294967296
  let pl ← proposal at_ (lastLen p 2)
  pure (putFields (fU 1 s ++ fU 2 (lastVarint fs 2) ++ fB 3 (lastLen fs 3) ++ fM 4 (fU 1 at_ ++ fB 2 pl)))

/-- `LocalPreParams`-shaped message (paillier key nested `depth` levels), all big integers -/
def preParamsFields (nestedPk : Bool) (lpp : List Field) : Option (List Field) := do
  let sk ← subMsgD lpp 1
  let pkField ← if nestedPk then do
      let pk ← subMsgD sk 1
      pure (fM 1 (fB 1 (stripZeros (lastLen pk 1))))
    else pure (fB 1 (stripZeros (lastLen sk 1)))
  pure (fM 1 (pkField ++ fB 2 (stripZeros (lastLen sk 2)) ++ fB 3 (stripZeros (lastLen sk 3))) ++
    [2, 3, 4, 5, 6, 7, 8].flatMap fun i => fB i (stripZeros (lastLen lpp i)))

/-- two's complement views -/
def toInt64 (v : Nat) : Int := if v < 9223372036854775808 then v else (v : Int) - 18446744073709551616
def toInt32 (v : Nat) : Int :=
  let w := v % 4294967296
  if w < 2147483648 then w else (w : Int) - 4294967296
def ofInt64 (i : Int) : Nat := (i % 18446744073709551616).toNat

/-- `tecdsa/dkg.PreParams`: `timestamppb.New(ts.AsTime())` normalises (seconds, nanos) -/
def preParams (bs : Bytes) : Option Bytes := do
  let fs ← parseMsg bs
  let data ← subMsgD fs 1
  let ts ← subMsgD fs 2
  let d ← preParamsFields true data
  let sec := toInt64 (lastVarint ts 1)
  let ns := toInt32 (lastVarint ts 2)
  let sec' := ofInt64 (sec + ns / 1000000000)     -- Int `/` and `%` round towards −∞ for a positive divisor
  let ns' := (ns % 1000000000).toNat
  pure (putFields (fM 1 d ++ fM 2 (fU 1 sec' ++ fU 2 ns')))

/-! ### secp256k1 (btcec v0.22 `IsOnCurve` through `fieldVal.SetByteSlice`) -/

def secpP : Nat := 115792089237316195423570985008687907853269984665640564039457584007908834671663

/-- `fieldVal.SetByteSlice(x.Bytes())`: only the first 32 bytes are used, reduced mod p -/
def fieldOf (b : Bytes) : Nat := natOfBytes ((stripZeros b).take 32) % secpP

def onCurve (x y : Bytes) : Bool :=
  let fx := fieldOf x
  let fy := fieldOf y
  (fy * fy) % secpP == (fx * fx % secpP * fx + 7) % secpP

def ecPoint (pt : List Field) : Option (List Field) :=
  let x := stripZeros (lastLen pt 1)
  let y := stripZeros (lastLen pt 2)
  if onCurve x y then some (fB 1 x ++ fB 2 y) else none

def rep (num : Nat) (xs : List Bytes) : List Field := xs.map fun b => (num, WVal.len b)

def privateKeyShare (bs : Bytes) : Option Bytes := do
  let fs ← parseMsg bs
  let data ← subMsgD fs 1
  let lpp ← subMsgD data 1
  let secrets ← subMsgD data 2
  let bigXj ← (lens data 7).mapM parseMsg
  let pub ← subMsgD data 9
  let lpp' ← preParamsFields false lpp
  let bigXj' ← bigXj.mapM ecPoint
  let pub' ← ecPoint pub
  let strip := fun (i : Nat) => rep i ((lens data i).map stripZeros)
  pure (putFields (fM 1 (
    fM 1 lpp' ++ fM 2 (fB 1 (stripZeros (lastLen secrets 1)) ++ fB 2 (stripZeros (lastLen secrets 2))) ++
    strip 3 ++ strip 4 ++ strip 5 ++ strip 6 ++ bigXj'.map (fun p => (7, WVal.len (putFields p))) ++
    strip 8 ++ fM 9 pub')))

/-- `elliptic.Unmarshal(secp256k1, b)` accepted (then `elliptic.Marshal` gives `b` back) -/
def uncompressedOk (b : Bytes) : Bool :=
  b.length == 65 && b.head? == some 4 &&
  natOfBytes ((b.drop 1).take 32) < secpP && natOfBytes (b.drop 33) < secpP &&
  onCurve ((b.drop 1).take 32) (b.drop 33)

/-- repaired `tbtc.signer.Unmarshal` -/
def signer (bs : Bytes) : Option Bytes := do
  let fs ← parseMsg bs
  let w ← subMsg fs 1
  let w ← w                                    -- fix: missing wallet is an error
  guard' (strOk w 2)
  guard' (uncompressedOk (lastLen w 1))        -- fix: invalid public key is an error
  guard' (idxOk (lastVarint fs 2 % 4294967296)) -- fix: index above 255 is an error (was truncated)
  let pks ← privateKeyShare (lastLen fs 3)
  pure (putFields (fM 1 (fB 1 (lastLen w 1) ++ rep 2 (lens w 2)) ++
    fU 2 (lastVarint fs 2 % 4294967296) ++ fB 3 pks))

/-- outcome of the code before the repair: `none` = the Go code panics -/
inductive Orig where
  | panic | err | ok (out : Bytes)
  deriving DecidableEq, Repr

/-- `signer.Unmarshal` as it was: `pbSigner.Wallet.PublicKey` without a nil check, an
    unparsable key accepted with nil coordinates (its `Marshal` then panics), and the member
    index converted to `uint8` without a range check. -/
def signerOrig (bs : Bytes) : Orig :=
  match parseMsg bs with
  | none => .err
  | some fs =>
    match subMsg fs 1 with
    | none => .err
    | some none => .panic
    | some (some w) =>
      if !strOk w 2 then .err else
      match privateKeyShare (lastLen fs 3) with
      | none => .err
      | some pks =>
        if !uncompressedOk (lastLen w 1) then .panic   -- accepted; re-marshal dereferences nil X/Y
        else .ok (putFields (fM 1 (fB 1 (lastLen w 1) ++ rep 2 (lens w 2)) ++
          fU 2 (lastVarint fs 2 % 4294967296 % 256) ++ fB 3 pks))

/-- gjkr accusation messages as they were: the key-map error was swallowed (`return nil`) and the
    half-decoded message (sender only) accepted. -/
def accusationsOrig (bs : Bytes) : Option Bytes :=
  match parseMsg bs with
  | none => none
  | some fs =>
    match mapBytes fs 2 with
    | none => none
    | some m =>
      if !strOk fs 3 then none else
      let s := lastVarint fs 1 % 4294967296
      if !idxOk s then none else
      if m.all (fun (k, v) => idxOk k && decide (v ≠ [])) then
        mapMsg false 2 3 privCv bs
      else some (putFields (fU 1 s))

/-! ## types whose payloads are parsed by third-party libraries (parsing = oracle parameter) -/

/-- results of the library parsers for the blobs of one input, as obtained from the real
    libraries by the harness: (kind, blob, `some canonical re-encoding` | `none` = rejected).
    Kinds (ASCII): 101 `e` btcec public key, 103 `g` bn256 G1, 104 `h` bn256 G2,
    100 `d` decimal big integer string, 105 `i` libp2p public key. -/
abbrev Oracle := List (Nat × Bytes × Option Bytes)

/-- a blob that is not in the table is treated as rejected (`dflt = false`) or accepted
    unchanged (`dflt = true`); the driver predicts only when both readings agree. -/
def olook (o : Oracle) (dflt : Bool) (kind : Nat) (b : Bytes) : Option Bytes :=
  match o.find? (fun e => e.1 == kind && e.2.1 == b) with
  | some e => e.2.2
  | none => if dflt then some b else none

/-- sender / repeated curve points / session (`MemberCommitments`, `MemberPublicKeySharePoints`) -/
def repMsg (cv : Bytes → Option Bytes) (bs : Bytes) : Option Bytes := do
  let fs ← parseMsg bs
  guard' (strOk fs 3)
  let s := lastVarint fs 1 % 4294967296
  guard' (idxOk s)
  let xs ← (lens fs 2).mapM cv
  pure (putFields (fU 1 s ++ rep 2 xs ++ fB 3 (lastLen fs 3)))

/-- repaired `beacon/dkg.ThresholdSigner.Unmarshal` (member index and share keys ≤ 255) -/
def thresholdSigner (cvH cvD : Bytes → Option Bytes) (bs : Bytes) : Option Bytes := do
  let fs ← parseMsg bs
  let m ← mapBytes fs 4
  guard' (strOk fs 3 && strOk fs 5)
  let s := lastVarint fs 1 % 4294967296
  guard' (idxOk s)
  let gpk ← cvH (lastLen fs 2)
  let share ← cvD (lastLen fs 3)
  guard' (m.all fun (k, _) => idxOk k)
  let m' ← m.mapM fun (k, v) => (cvH v).map fun v' => (k, v')
  pure (putFields (fU 1 s ++ fB 2 gpk ++ fB 3 share ++ encMapBytes 4 m' ++ rep 5 (lens fs 5)))

/-- `ThresholdSigner.Unmarshal` as it was: indexes truncated to `uint8`, colliding share keys
    (1 and 257) overwrite each other in map-iteration order. Only the member index is modelled. -/
def thresholdSignerOrigIndex (bs : Bytes) : Option Nat :=
  (parseMsg bs).map fun fs => lastVarint fs 1 % 4294967296 % 256

def membership (cvH cvD : Bytes → Option Bytes) (bs : Bytes) : Option Bytes := do
  let fs ← parseMsg bs
  guard' (strOk fs 2)
  let sg ← thresholdSigner cvH cvD (lastLen fs 1)
  pure (putFields (fB 1 sg ++ fB 2 (lastLen fs 2)))

def identity (cvI : Bytes → Option Bytes) (bs : Bytes) : Option Bytes := do
  let fs ← parseMsg bs
  let pk ← cvI (lastLen fs 1)
  pure (putFields (fB 1 pk))

/-! ## dispatch -/

def unmarshalD (o : Oracle) (d : Bool) (ty : String) (bs : Bytes) : Option (Option Bytes) :=
  let simple := ["entry.SignatureShare", "tdkg.TSSRoundOne", "tdkg.TSSRoundThree",
    "tsign.TSSRoundThree", "tsign.TSSRoundFour", "tsign.TSSRoundFive", "tsign.TSSRoundSix",
    "tsign.TSSRoundSeven", "tsign.TSSRoundEight", "tsign.TSSRoundNine"]
  let hashSigs := ["result.DKGResultHashSignature", "inactivity.ClaimSignature", "tdkg.ResultSignature"]
  let accus := ["gjkr.SecretSharesAccusations", "gjkr.PointsAccusations", "gjkr.MisbehavedEphemeralKeys"]
  let ephem := ["gjkr.EphemeralPublicKey", "tdkg.EphemeralPublicKey", "tsign.EphemeralPublicKey"]
  if simple.contains ty then some (simple3.unmarshal bs)
  else if hashSigs.contains ty then some (hashSig.unmarshal bs)
  else if accus.contains ty then some (mapMsg false 2 3 privCv bs)
  else if ephem.contains ty then some (mapMsg false 2 3 (olook o d 101) bs)
  else match ty with
  | "tdkg.TSSFinalization" => some (finalization.unmarshal bs)
  | "announcer.Announcement" => some (announcement.unmarshal bs)
  | "hs.Act1" => some (act1.unmarshal bs)
  | "hs.Act2" => some (act2.unmarshal bs)
  | "hs.Act3" => some (act3.unmarshal bs)
  | "tecdsa.Signature" => some (signature.unmarshal bs)
  | "tbtc.SigningDone" => some (signingDone.unmarshal bs)
  | "tbtc.Noop" => some (some [])
  | "tbtc.Heartbeat" => some (heartbeat.unmarshal bs)
  | "tbtc.DepositSweep" => some (depositSweep bs)
  | "tbtc.Redemption" => some (redemption bs)
  | "tbtc.MovingFunds" => some (movingFunds bs)
  | "tbtc.MovedFundsSweep" => some (movedFundsSweep.unmarshal bs)
  | "tbtc.Coordination" => some (coordination bs)
  | "tdkg.TSSRoundTwo" => some (mapMsg true 3 4 some bs)
  | "tsign.TSSRoundOne" => some (mapMsg true 3 4 some bs)
  | "tsign.TSSRoundTwo" => some (mapMsg false 2 3 some bs)
  | "gjkr.PeerShares" => some (peerShares bs)
  | "tdkg.PreParams" => some (preParams bs)
  | "tecdsa.PrivateKeyShare" => some (privateKeyShare bs)
  | "tbtc.Signer" => some (signer bs)
  | "gjkr.MemberCommitments" => some (repMsg (olook o d 103) bs)
  | "gjkr.MemberPublicKeySharePoints" => some (repMsg (olook o d 104) bs)
  | "registry.ThresholdSigner" => some (thresholdSigner (olook o d 104) (olook o d 100) bs)
  | "registry.Membership" => some (membership (olook o d 104) (olook o d 100) bs)
  | "libp2p.Identity" => some (identity (olook o d 105) bs)
  | _ => none

/-- prediction for one decoder call: `none` = unknown type, or a library-parsed blob of the
    input is missing from the oracle and matters (the two default readings differ). -/
def unmarshal (o : Oracle) (ty : String) (bs : Bytes) : Option (Option Bytes) :=
  let r := unmarshalD o false ty bs
  if r == unmarshalD o true ty bs then r else none

/-! ## monitor -/

/-- observation of the implementation; `idem` = the accepted value's own encoding, fed back to
    `Unmarshal`, is accepted and re-marshals to the same bytes (checked by the harness on the real
    code) -/
inductive Obs where
  | ok (out : Bytes) (idem : Bool) | err | other (s : String)
  deriving DecidableEq, Repr

/-- **The property, stated without reference to the model**, on one decoder call:
    * never a panic / hang (`other`);
    * an accepted value is a fixpoint of Marshal ∘ Unmarshal (decoding what was encoded gives
      back an equal value);
    * on the round-trip stream (`wf`: the input is the `Marshal` of a well-formed value) the
      input is accepted and re-marshals to exactly the input. -/
def propHolds (wf : Bool) (input : Bytes) (o : Obs) : Bool :=
  match o with
  | .other _ => false
  | .err => !wf
  | .ok out idem => idem && (!wf || out == input)

/-- second clause, relative to the specification (the model): an accepted value is the canonical
    form the specification assigns to the input — nothing of the input is silently dropped or
    truncated, every invariant holds — and a canonical well-formed encoding is not rejected. -/
def specHolds (o : Oracle) (ty : String) (input : Bytes) (obs : Obs) : Bool :=
  match unmarshal o ty input with
  | none => true
  | some r =>
    match obs with
    | .other _ => false
    | .err => (match r with
      | some out => out != input
      | none => true)
    | .ok out _ => r == some out

def holds (o : Oracle) (ty : String) (wf : Bool) (input : Bytes) (obs : Obs) : Bool :=
  propHolds wf input obs && specHolds o ty input obs

end KeepVerif.C19
