import KeepVerif.Model.C19Wire
/-!
# C19 model: every `Unmarshal` of the anchored files followed by the type's own `Marshal`

`unmarshal oracle typeId bytes : Option (Option Bytes)`
* `none`            – unknown type, or a needed library-parse result is missing from the oracle (`SKIP`)
* `some none`       – `Unmarshal` returns an error
* `some (some out)` – accepted; `out` = canonical re-marshal (deterministic map order)

The model is a total function, it has no third outcome: a panic of the Go code is a disagreement.
Models follow the code of the *repaired* tree (fix commits recorded in findings/C19.json); the
behaviour of the unrepaired `signer.Unmarshal` and gjkr accusation decoders is modelled separately
(`signerOrig`, `accusationsOrig`, `…OrigIndex`) for the counterexample theorems.

Every decoder is a `MsgSpec`: a wire schema (field number + kind, nested messages and map
entries kept as parsed field lists) and keep-core's post-decoding validation/normalisation
`post`. The generic theorems of `Proofs/C19Flat.lean` hold for every `MsgSpec`.
-/
namespace KeepVerif.C19

/-! ## message specs -/

inductive Kind where
  | u32 | u64 | bytes | str
  | i32     -- kept as the raw 64-bit varint value; the sign is interpreted by `post`
  | rbytes  -- repeated bytes
  | rstr    -- repeated string (each occurrence UTF-8 checked)
  | packed  -- repeated uint64: packed and unpacked occurrences accepted, packed emitted
  | msg     -- singular embedded message: occurrences are parsed and merged
  | rmsg (code : Nat)  -- repeated embedded message (code 16) / map field = repeated entry
                       -- message {1: key, 2: value} (code 22 map<uint32,bytes>, 26 map<uint32,message>)
  deriving DecidableEq, Repr

inductive Val where
  | n (v : Nat)
  | b (bs : Bytes)
  | l (xs : List Bytes)
  | ns (xs : List Nat)
  | m (sub : Option (List Field))   -- `none` = absent (nil pointer)
  | ms (subs : List (List Field))
  deriving DecidableEq, Repr

structure FSpec where
  num : Nat
  kind : Kind
  deriving DecidableEq, Repr

/-- singular embedded message: every occurrence must parse; occurrences merge (= concatenation
    of their field lists). `none` = wire error, `some none` = absent. -/
def subMsg (fs : List Field) (num : Nat) : Option (Option (List Field)) :=
  match (lens fs num).mapM parseMsg with
  | none => none
  | some [] => some none
  | some ps => some (some ps.flatten)

/-- typed decoding of one declared field from the parsed field list -/
def decField (fs : List Field) (s : FSpec) : Option Val :=
  match s.kind with
  | .u32 => some (.n (lastVarint fs s.num % 4294967296))
  | .u64 => some (.n (lastVarint fs s.num))
  | .i32 => some (.n (lastVarint fs s.num))
  | .bytes => some (.b (lastLen fs s.num))
  | .str => if (lens fs s.num).all isUtf8 then some (.b (lastLen fs s.num)) else none
  | .rbytes => some (.l (lens fs s.num))
  | .rstr => if (lens fs s.num).all isUtf8 then some (.l (lens fs s.num)) else none
  | .packed => (u64s fs s.num).map .ns
  | .msg => (subMsg fs s.num).map .m
  | .rmsg _ => ((lens fs s.num).mapM parseMsg).map .ms

def decFlat (S : List FSpec) (fs : List Field) : Option (List Val) := S.mapM (decField fs)

/-- proto3 encoding of one field: scalar defaults are omitted, a non-nil embedded message is
    always emitted (also when empty), repeated scalars are packed -/
def encField (s : FSpec) (v : Val) : List Field :=
  match v with
  | .n v => if v = 0 then [] else [(s.num, .varint v)]
  | .b b => if b = [] then [] else [(s.num, .len b)]
  | .l xs => xs.map fun b => (s.num, WVal.len b)
  | .ns xs => if xs = [] then [] else [(s.num, .len (xs.flatMap putVarint))]
  | .m none => []
  | .m (some sub) => [(s.num, .len (putFields sub))]
  | .ms subs => subs.map fun sub => (s.num, WVal.len (putFields sub))

def encFlat : List FSpec → List Val → List Field
  | s :: S, v :: vs => encField s v ++ encFlat S vs
  | _, _ => []

/-- numeric form of a schema, compared with the lists generated from the Go descriptors -/
def Kind.code : Kind → Nat
  | .u32 => 0 | .u64 => 1 | .bytes => 2 | .str => 3 | .i32 => 4 | .rbytes => 12 | .rstr => 13
  | .packed => 11 | .msg => 6 | .rmsg c => c
def schemaCode (S : List FSpec) : List Nat := S.flatMap fun s => [s.num, s.kind.code]

/-- a message type: wire schema + keep-core's post-decoding validation / normalisation -/
structure MsgSpec where
  fields : List FSpec
  post : List Val → Option (List Val)

/-- field-list level (used for embedded messages) -/
def MsgSpec.unmarshalF (M : MsgSpec) (fs : List Field) : Option (List Field) := do
  let vs ← decFlat M.fields fs
  let vs' ← M.post vs
  pure (encFlat M.fields vs')

def MsgSpec.marshal (M : MsgSpec) (vs : List Val) : Bytes := putFields (encFlat M.fields vs)

def MsgSpec.unmarshal (M : MsgSpec) (bs : Bytes) : Option Bytes := do
  let fs ← parseMsg bs
  let out ← M.unmarshalF fs
  pure (putFields out)

/-! ## helpers of the keep-core side -/

/-- `new(big.Int).SetBytes(b).Bytes()` -/
def stripZeros : Bytes → Bytes
  | 0 :: r => stripZeros r
  | bs => bs

def natOfBytes (bs : Bytes) : Nat := bs.foldl (fun a b => a * 256 + b) 0

/-- `validateMemberIndex` -/
def idxOk (v : Nat) : Bool := decide (v ≤ 255)

def guard' (c : Bool) : Option Unit := if c then some () else none

def fU (num v : Nat) : List Field := if v = 0 then [] else [(num, .varint v)]
def fB (num : Nat) (b : Bytes) : List Field := if b = [] then [] else [(num, .len b)]
/-- a non-nil embedded message is always emitted, also when empty -/
def fM (num : Nat) (sub : List Field) : List Field := [(num, .len (putFields sub))]
def rep (num : Nat) (xs : List Bytes) : List Field := xs.map fun b => (num, WVal.len b)

/-- like `subMsg` but absent = empty (nil-safe getters) -/
def subMsgD (fs : List Field) (num : Nat) : Option (List Field) :=
  (subMsg fs num).map (·.getD [])

/-! ### flat specs -/

/-- senderID / payload / sessionID messages -/
def simple3 : MsgSpec where
  fields := [⟨1, .u32⟩, ⟨2, .bytes⟩, ⟨3, .str⟩]
  post
    | [.n s, .b p, .b sess] => if idxOk s then some [.n s, .b p, .b sess] else none
    | _ => none

def finalization : MsgSpec where
  fields := [⟨1, .u32⟩, ⟨2, .str⟩]
  post
    | [.n s, .b sess] => if idxOk s then some [.n s, .b sess] else none
    | _ => none

def announcement : MsgSpec where
  fields := [⟨1, .u32⟩, ⟨2, .str⟩, ⟨3, .str⟩]
  post
    | [.n s, .b p, .b sess] => if idxOk s then some [.n s, .b p, .b sess] else none
    | _ => none

/-- sender / 32-byte hash / signature / public key / session -/
def hashSig : MsgSpec where
  fields := [⟨1, .u32⟩, ⟨2, .bytes⟩, ⟨3, .bytes⟩, ⟨4, .bytes⟩, ⟨5, .str⟩]
  post
    | [.n s, .b h, .b sg, .b pk, .b sess] =>
      if idxOk s && h.length == 32 then some [.n s, .b h, .b sg, .b pk, .b sess] else none
    | _ => none

def act1 : MsgSpec where
  fields := [⟨1, .bytes⟩, ⟨2, .str⟩]
  post
    | [.b nonce, .b p] => if nonce.length == 8 then some [.b nonce, .b p] else none
    | _ => none

def act2 : MsgSpec where
  fields := [⟨1, .bytes⟩, ⟨2, .bytes⟩, ⟨3, .str⟩]
  post
    | [.b nonce, .b ch, .b p] =>
      if nonce.length == 8 && ch.length == 32 then some [.b nonce, .b ch, .b p] else none
    | _ => none

def act3 : MsgSpec where
  fields := [⟨1, .bytes⟩]
  post
    | [.b ch] => if ch.length == 32 then some [.b ch] else none
    | _ => none

def heartbeat : MsgSpec where
  fields := [⟨1, .bytes⟩]
  post
    | [.b m] => if m.length == 16 then some [.b m] else none
    | _ => none

def movedFundsSweep : MsgSpec where
  fields := [⟨1, .bytes⟩, ⟨2, .u32⟩, ⟨3, .bytes⟩]
  post
    | [.b h, .n i, .b fee] => if h.length == 32 then some [.b h, .n i, .b (stripZeros fee)] else none
    | _ => none

/-- `tecdsa.Signature`: R, S big integers, recoveryID an int32 that must fit int8.
    The int32 is kept as its 64-bit two's-complement varint value. -/
def signature : MsgSpec where
  fields := [⟨1, .bytes⟩, ⟨2, .bytes⟩, ⟨3, .i32⟩]
  post
    | [.b r, .b s, .n id] =>
      let v := id % 4294967296           -- int32(v)
      if v ≤ 127 then some [.b (stripZeros r), .b (stripZeros s), .n v]
      else if 4294967168 ≤ v then        -- −128 … −1, sign-extended to 64 bits on the wire
        some [.b (stripZeros r), .b (stripZeros s), .n (v + 18446744069414584320)]
      else none
    | _ => none

/-- `tbtc.signingDoneMessage`; the signature field holds a `tecdsa.Signature` encoding -/
def signingDone : MsgSpec where
  fields := [⟨1, .u32⟩, ⟨2, .bytes⟩, ⟨3, .u64⟩, ⟨4, .bytes⟩, ⟨5, .u64⟩]
  post
    | [.n s, .b m, .n att, .b sg, .n eb] =>
      if idxOk s then
        match signature.unmarshal sg with
        | some sg' => some [.n s, .b (stripZeros m), .n att, .b sg', .n eb]
        | none => none
      else none
    | _ => none

def redemptionSpec : MsgSpec where
  fields := [⟨1, .rbytes⟩, ⟨2, .bytes⟩]
  post
    | [.l scripts, .b fee] => some [.l scripts, .b (stripZeros fee)]
    | _ => none

def movingFundsSpec : MsgSpec where
  fields := [⟨1, .rbytes⟩, ⟨2, .bytes⟩]
  post
    | [.l ws, .b fee] => if ws.all (fun w => w.length == 20) then some [.l ws, .b (stripZeros fee)] else none
    | _ => none

/-! ### map fields: repeated entry messages, last entry per key wins, emitted in key order -/

def mapInsert {α} (k : Nat) (v : α) : List (Nat × α) → List (Nat × α)
  | [] => [(k, v)]
  | (k', v') :: r =>
    if k < k' then (k, v) :: (k', v') :: r
    else if k = k' then (k, v) :: r
    else (k', v') :: mapInsert k v r

/-- the Go map built from the entries in wire order -/
def toMap {α} (kvs : List (Nat × α)) : List (Nat × α) :=
  kvs.foldl (fun m kv => mapInsert kv.1 kv.2 m) []

/-- key / value of a `map<uint32, bytes>` entry (missing = default) -/
def kvOf (e : List Field) : Nat × Bytes := (lastVarint e 1 % 4294967296, lastLen e 2)

/-- Go always emits both the key and the value of a map entry -/
def entryOf (kv : Nat × Bytes) : List Field := [(1, .varint kv.1), (2, .len kv.2)]

/-- validation of a decoded `map<uint32, bytes>`: every key a member index, every value accepted
    and normalised by `cv` -/
def mapPost (cv : Bytes → Option Bytes) (es : List (List Field)) : Option (List (List Field)) := do
  let m := toMap (es.map kvOf)
  guard' (m.all fun kv => idxOk kv.1)
  let m' ← m.mapM fun kv => (cv kv.2).map fun v' => (kv.1, v')
  pure (m'.map entryOf)

/-- sender / map / session -/
def mapSpec3 (cv : Bytes → Option Bytes) : MsgSpec where
  fields := [⟨1, .u32⟩, ⟨2, .rmsg 22⟩, ⟨3, .str⟩]
  post
    | [.n s, .ms es, .b sess] =>
      if idxOk s then (mapPost cv es).map fun es' => [.n s, .ms es', .b sess] else none
    | _ => none

/-- sender / broadcast payload / map / session -/
def mapSpec4 (cv : Bytes → Option Bytes) : MsgSpec where
  fields := [⟨1, .u32⟩, ⟨2, .bytes⟩, ⟨3, .rmsg 22⟩, ⟨4, .str⟩]
  post
    | [.n s, .b p, .ms es, .b sess] =>
      if idxOk s then (mapPost cv es).map fun es' => [.n s, .b p, .ms es', .b sess] else none
    | _ => none

/-- `ephemeral.UnmarshalPrivateKey(b).Marshal()`: big-endian integer left-padded to 32 bytes -/
def privNorm (b : Bytes) : Bytes :=
  let s := stripZeros b
  List.replicate (32 - s.length) 0 ++ s

/-- accused / misbehaved members' private keys: non-empty, normalised -/
def privCv (v : Bytes) : Option Bytes := if v = [] then none else some (privNorm v)

/-- gjkr `PeerShares`: map<uint32, Shares{bytes, bytes}> (a missing value is an empty message) -/
def peerSharesSpec : MsgSpec where
  fields := [⟨1, .u32⟩, ⟨2, .rmsg 26⟩, ⟨3, .str⟩]
  post
    | [.n s, .ms es, .b sess] => do
      guard' (idxOk s)
      let vals ← es.mapM fun e => do
        let v ← subMsgD e 2
        pure (lastVarint e 1 % 4294967296, (lastLen v 1, lastLen v 2))
      let m := toMap vals
      guard' (m.all fun kv => idxOk kv.1)
      pure [.n s, .ms (m.map fun kv =>
        [(1, WVal.varint kv.1), (2, WVal.len (putFields (fB 1 kv.2.1 ++ fB 2 kv.2.2)))]), .b sess]
    | _ => none

/-- `big.NewInt(int64(v)).Uint64()` -/
def absInt64 (v : Nat) : Nat := if v < 9223372036854775808 then v else 18446744073709551616 - v

def depositSweepSpec : MsgSpec where
  fields := [⟨1, .rmsg 16⟩, ⟨2, .bytes⟩, ⟨3, .packed⟩]
  post
    | [.ms keys, .b fee, .ns blocks] =>
      if keys.all (fun k => (lastLen k 1).length == 32) then
        some [.ms (keys.map fun k => fB 1 (lastLen k 1) ++ fU 2 (lastVarint k 2 % 4294967296)),
              .b (stripZeros fee), .ns (blocks.map absInt64)]
      else none
    | _ => none

/-- `unmarshalCoordinationProposal` + the proposal's `Marshal` -/
def proposal (actionType : Nat) (payload : Bytes) : Option Bytes :=
  match actionType with
  | 0 => some []
  | 1 => heartbeat.unmarshal payload
  | 2 => depositSweepSpec.unmarshal payload
  | 3 => redemptionSpec.unmarshal payload
  | 4 => movingFundsSpec.unmarshal payload
  | 5 => movedFundsSweep.unmarshal payload
  | _ => none

def coordinationSpec : MsgSpec where
  fields := [⟨1, .u32⟩, ⟨2, .u64⟩, ⟨3, .bytes⟩, ⟨4, .msg⟩]
  post
    | [.n s, .n blk, .b h, .m (some p)] =>
      if idxOk s && h.length == 20 then
        let at_ := lastVarint p 1 % 4294967296
        (proposal at_ (lastLen p 2)).map fun pl =>
          [.n s, .n blk, .b h, .m (some (fU 1 at_ ++ fB 2 pl))]
      else none
    | _ => none          -- in particular `.m none`: "missing proposal"

/-- `LocalPreParams`-shaped message (paillier public key nested or flat), all big integers -/
def preParamsFields (nestedPk : Bool) (lpp : List Field) : Option (List Field) := do
  let sk ← subMsgD lpp 1
  let pkField ← if nestedPk then do
      let pk ← subMsgD sk 1
      pure (fM 1 (fB 1 (stripZeros (lastLen pk 1))))
    else pure (fB 1 (stripZeros (lastLen sk 1)))
  pure (fM 1 (pkField ++ fB 2 (stripZeros (lastLen sk 2)) ++ fB 3 (stripZeros (lastLen sk 3))) ++
    [2, 3, 4, 5, 6, 7, 8].flatMap fun i => fB i (stripZeros (lastLen lpp i)))

/-- two's complement views -/
def toInt64 (v : Nat) : Int := if v < 9223372036854775808 then v else (v : Int) - 18446744073709551616
def toInt32 (v : Nat) : Int :=
  let w := v % 4294967296
  if w < 2147483648 then w else (w : Int) - 4294967296
def ofInt64 (i : Int) : Nat := (i % 18446744073709551616).toNat

/-- `tecdsa/dkg.PreParams`: `timestamppb.New(ts.AsTime())` normalises (seconds, nanos) -/
def preParamsSpec : MsgSpec where
  fields := [⟨1, .msg⟩, ⟨2, .msg⟩]
  post
    | [.m data, .m ts] => do
      let d ← preParamsFields true (data.getD [])
      let t := ts.getD []
      let sec := toInt64 (lastVarint t 1)
      let ns := toInt32 (lastVarint t 2)
      let sec' := ofInt64 (sec + ns / 1000000000)  -- Int `/`, `%` round towards −∞ for a positive divisor
      let ns' := (ns % 1000000000).toNat
      pure [.m (some d), .m (some (fU 1 sec' ++ fU 2 ns'))]
    | _ => none

/-! ### secp256k1 (btcec v0.22 `IsOnCurve` through `fieldVal.SetByteSlice`) -/

def secpP : Nat := 115792089237316195423570985008687907853269984665640564039457584007908834671663

/-- `fieldVal.SetByteSlice(x.Bytes())`: only the first 32 bytes are used, reduced mod p -/
def fieldOf (b : Bytes) : Nat := natOfBytes ((stripZeros b).take 32) % secpP

def onCurve (x y : Bytes) : Bool :=
  let fx := fieldOf x
  let fy := fieldOf y
  (fy * fy) % secpP == (fx * fx % secpP * fx + 7) % secpP

def ecPoint (pt : List Field) : Option (List Field) :=
  let x := stripZeros (lastLen pt 1)
  let y := stripZeros (lastLen pt 2)
  if onCurve x y then some (fB 1 x ++ fB 2 y) else none

/-- `tecdsa.PrivateKeyShare` (tss-lib `LocalPartySaveData`): big integers, curve points checked -/
def privateKeyShareSpec : MsgSpec where
  fields := [⟨1, .msg⟩]
  post
    | [.m od] => do
      let data := od.getD []
      let lpp ← subMsgD data 1
      let secrets ← subMsgD data 2
      let bigXj ← (lens data 7).mapM parseMsg
      let pub ← subMsgD data 9
      let lpp' ← preParamsFields false lpp
      let bigXj' ← bigXj.mapM ecPoint
      let pub' ← ecPoint pub
      let strip := fun (i : Nat) => rep i ((lens data i).map stripZeros)
      pure [.m (some (
        fM 1 lpp' ++ fM 2 (fB 1 (stripZeros (lastLen secrets 1)) ++ fB 2 (stripZeros (lastLen secrets 2))) ++
        strip 3 ++ strip 4 ++ strip 5 ++ strip 6 ++ bigXj'.map (fun p => (7, WVal.len (putFields p))) ++
        strip 8 ++ fM 9 pub'))]
    | _ => none

def privateKeyShare (bs : Bytes) : Option Bytes := privateKeyShareSpec.unmarshal bs

/-- `elliptic.Unmarshal(secp256k1, b)` accepted (then `elliptic.Marshal` gives `b` back) -/
def uncompressedOk (b : Bytes) : Bool :=
  b.length == 65 && b.head? == some 4 &&
  natOfBytes ((b.drop 1).take 32) < secpP && natOfBytes (b.drop 33) < secpP &&
  onCurve ((b.drop 1).take 32) (b.drop 33)

/-- `pb.Wallet` -/
def walletSpec : MsgSpec where
  fields := [⟨1, .bytes⟩, ⟨2, .rstr⟩]
  post
    | [.b pk, .l ops] => if uncompressedOk pk then some [.b pk, .l ops] else none  -- fix c54bee6
    | _ => none

/-- repaired `tbtc.signer.Unmarshal` -/
def signerSpec : MsgSpec where
  fields := [⟨1, .msg⟩, ⟨2, .u32⟩, ⟨3, .bytes⟩]
  post
    | [.m (some w), .n i, .b pks] => do
      let w' ← walletSpec.unmarshalF w
      guard' (idxOk i)                         -- fix 33a5031 (was truncated to uint8)
      let pks' ← privateKeyShare pks
      pure [.m (some w'), .n i, .b pks']
    | _ => none                                -- `.m none`: fix c54bee6, missing wallet is an error

def signer (bs : Bytes) : Option Bytes := signerSpec.unmarshal bs

/-- outcome of the code before the repair: `panic` = the Go code panics -/
inductive Orig where
  | panic | err | ok (out : Bytes)
  deriving DecidableEq, Repr

/-- `signer.Unmarshal` as it was: `pbSigner.Wallet.PublicKey` without a nil check, an
    unparsable key accepted with nil coordinates (its `Marshal` then panics), and the member
    index converted to `uint8` without a range check. -/
def signerOrig (bs : Bytes) : Orig :=
  match parseMsg bs with
  | none => .err
  | some fs =>
    match decFlat signerSpec.fields fs with
    | some [.m none, _, _] => .panic
    | some [.m (some w), .n i, .b pks] =>
      match decFlat walletSpec.fields w with
      | some [.b pk, .l ops] =>
        match privateKeyShare pks with
        | none => .err
        | some pks' =>
          if !uncompressedOk pk then .panic   -- accepted; re-marshal dereferences nil X/Y
          else .ok (signerSpec.marshal [.m (some (encFlat walletSpec.fields [.b pk, .l ops])), .n (i % 256), .b pks'])
      | _ => .err
    | _ => .err

/-- gjkr accusation messages as they were: the key-map error was swallowed (`return nil`) and the
    half-decoded message (sender only) accepted. -/
def accusationsOrig (bs : Bytes) : Option Bytes :=
  match parseMsg bs with
  | none => none
  | some fs =>
    match decFlat (mapSpec3 privCv).fields fs with
    | some [.n s, .ms es, .b sess] =>
      if !idxOk s then none else
      match mapPost privCv es with
      | some es' => some ((mapSpec3 privCv).marshal [.n s, .ms es', .b sess])
      | none => some (putFields (fU 1 s))
    | _ => none

/-! ### payloads parsed by third-party libraries (parsing = oracle parameter) -/

/-- results of the library parsers for the blobs of one input, as obtained from the real
    libraries by the harness: (kind, blob, `some canonical re-encoding` | `none` = rejected).
    Kinds (ASCII): 101 `e` btcec public key, 103 `g` bn256 G1, 104 `h` bn256 G2,
    100 `d` decimal big integer string, 105 `i` libp2p public key. -/
abbrev Oracle := List (Nat × Bytes × Option Bytes)

/-- a blob that is not in the table is treated as rejected (`dflt = false`) or accepted
    unchanged (`dflt = true`); the driver predicts only when both readings agree. -/
def olook (o : Oracle) (dflt : Bool) (kind : Nat) (b : Bytes) : Option Bytes :=
  match o.find? (fun e => e.1 == kind && e.2.1 == b) with
  | some e => e.2.2
  | none => if dflt then some b else none

/-- sender / repeated curve points / session (`MemberCommitments`, `MemberPublicKeySharePoints`) -/
def repSpec (cv : Bytes → Option Bytes) : MsgSpec where
  fields := [⟨1, .u32⟩, ⟨2, .rbytes⟩, ⟨3, .str⟩]
  post
    | [.n s, .l xs, .b sess] =>
      if idxOk s then (xs.mapM cv).map fun xs' => [.n s, .l xs', .b sess] else none
    | _ => none

/-- repaired `beacon/dkg.ThresholdSigner.Unmarshal` (member index and share keys ≤ 255) -/
def thresholdSignerSpec (cvH cvD : Bytes → Option Bytes) : MsgSpec where
  fields := [⟨1, .u32⟩, ⟨2, .bytes⟩, ⟨3, .str⟩, ⟨4, .rmsg 22⟩, ⟨5, .rstr⟩]
  post
    | [.n s, .b gpk, .b share, .ms es, .l ops] => do
      guard' (idxOk s)                         -- fix 45827cd
      let gpk' ← cvH gpk
      let share' ← cvD share
      let es' ← mapPost cvH es                 -- keys ≤ 255: fix 45827cd
      pure [.n s, .b gpk', .b share', .ms es', .l ops]
    | _ => none

/-- `ThresholdSigner.Unmarshal` / `signer.Unmarshal` as they were: indexes truncated to `uint8`
    (colliding share keys 1 and 257 overwrite each other in map-iteration order). Only the
    decoded member index is modelled. -/
def thresholdSignerOrigIndex (bs : Bytes) : Option Nat :=
  (parseMsg bs).map fun fs => lastVarint fs 1 % 4294967296 % 256
def signerOrigIndex (bs : Bytes) : Option Nat :=
  (parseMsg bs).map fun fs => lastVarint fs 2 % 4294967296 % 256

def membershipSpec (cvH cvD : Bytes → Option Bytes) : MsgSpec where
  fields := [⟨1, .bytes⟩, ⟨2, .str⟩]
  post
    | [.b sg, .b ch] => ((thresholdSignerSpec cvH cvD).unmarshal sg).map fun sg' => [.b sg', .b ch]
    | _ => none

def identitySpec (cvI : Bytes → Option Bytes) : MsgSpec where
  fields := [⟨1, .bytes⟩]
  post
    | [.b pk] => (cvI pk).map fun pk' => [.b pk']
    | _ => none

/-! ## dispatch -/

/-- the dispatch table: every decoder type (all but `tbtc.Noop`, which ignores its input) with
    its spec. The driver maps a type name to its position (`typeId`); model, monitor and theorems
    work with the position. -/
def table : List (String × (Oracle → Bool → MsgSpec)) := [
  ("entry.SignatureShare", fun _ _ => simple3),
  ("tdkg.TSSRoundOne", fun _ _ => simple3),
  ("tdkg.TSSRoundThree", fun _ _ => simple3),
  ("tsign.TSSRoundThree", fun _ _ => simple3),
  ("tsign.TSSRoundFour", fun _ _ => simple3),
  ("tsign.TSSRoundFive", fun _ _ => simple3),
  ("tsign.TSSRoundSix", fun _ _ => simple3),
  ("tsign.TSSRoundSeven", fun _ _ => simple3),
  ("tsign.TSSRoundEight", fun _ _ => simple3),
  ("tsign.TSSRoundNine", fun _ _ => simple3),
  ("result.DKGResultHashSignature", fun _ _ => hashSig),
  ("inactivity.ClaimSignature", fun _ _ => hashSig),
  ("tdkg.ResultSignature", fun _ _ => hashSig),
  ("gjkr.SecretSharesAccusations", fun _ _ => mapSpec3 privCv),
  ("gjkr.PointsAccusations", fun _ _ => mapSpec3 privCv),
  ("gjkr.MisbehavedEphemeralKeys", fun _ _ => mapSpec3 privCv),
  ("gjkr.EphemeralPublicKey", fun o d => mapSpec3 (olook o d 101)),
  ("tdkg.EphemeralPublicKey", fun o d => mapSpec3 (olook o d 101)),
  ("tsign.EphemeralPublicKey", fun o d => mapSpec3 (olook o d 101)),
  ("tdkg.TSSFinalization", fun _ _ => finalization),
  ("announcer.Announcement", fun _ _ => announcement),
  ("hs.Act1", fun _ _ => act1),
  ("hs.Act2", fun _ _ => act2),
  ("hs.Act3", fun _ _ => act3),
  ("tecdsa.Signature", fun _ _ => signature),
  ("tbtc.SigningDone", fun _ _ => signingDone),
  ("tbtc.Heartbeat", fun _ _ => heartbeat),
  ("tbtc.DepositSweep", fun _ _ => depositSweepSpec),
  ("tbtc.Redemption", fun _ _ => redemptionSpec),
  ("tbtc.MovingFunds", fun _ _ => movingFundsSpec),
  ("tbtc.MovedFundsSweep", fun _ _ => movedFundsSweep),
  ("tbtc.Coordination", fun _ _ => coordinationSpec),
  ("tdkg.TSSRoundTwo", fun _ _ => mapSpec4 some),
  ("tsign.TSSRoundOne", fun _ _ => mapSpec4 some),
  ("tsign.TSSRoundTwo", fun _ _ => mapSpec3 some),
  ("gjkr.PeerShares", fun _ _ => peerSharesSpec),
  ("tdkg.PreParams", fun _ _ => preParamsSpec),
  ("tecdsa.PrivateKeyShare", fun _ _ => privateKeyShareSpec),
  ("tbtc.Signer", fun _ _ => signerSpec),
  ("gjkr.MemberCommitments", fun o d => repSpec (olook o d 103)),
  ("gjkr.MemberPublicKeySharePoints", fun o d => repSpec (olook o d 104)),
  ("registry.ThresholdSigner", fun o d => thresholdSignerSpec (olook o d 104) (olook o d 100)),
  ("registry.Membership", fun o d => membershipSpec (olook o d 104) (olook o d 100)),
  ("libp2p.Identity", fun o d => identitySpec (olook o d 105))]

/-- type id of `tbtc.Noop` (`NoopProposal.Unmarshal` ignores its input) -/
def noopId : Nat := 44

/-- type name → type id -/
def typeId (name : String) : Option Nat :=
  if name = "tbtc.Noop" then some noopId else table.findIdx? (·.1 == name)

def specOf (o : Oracle) (d : Bool) (ty : Nat) : Option MsgSpec :=
  (table[ty]?).map fun e => e.2 o d

def unmarshalD (o : Oracle) (d : Bool) (ty : Nat) (bs : Bytes) : Option (Option Bytes) :=
  match specOf o d ty with
  | some M => some (M.unmarshal bs)
  | none => if ty = noopId then some (some []) else none

/-- prediction for one decoder call: `none` = unknown type, or a library-parsed blob of the
    input is missing from the oracle and matters (the two default readings differ). -/
def unmarshal (o : Oracle) (ty : Nat) (bs : Bytes) : Option (Option Bytes) :=
  let r := unmarshalD o false ty bs
  if r == unmarshalD o true ty bs then r else none

/-! ## monitor -/

/-- observation of the implementation; `idem` = the accepted value's own encoding, fed back to
    `Unmarshal`, is accepted and re-marshals to the same bytes (checked by the harness on the real
    code) -/
inductive Obs where
  | ok (out : Bytes) (idem : Bool) | err | other (s : String)
  deriving DecidableEq, Repr

/-- **The property, stated without reference to the model**, on one decoder call:
    * never a panic / hang (`other`);
    * an accepted value is a fixpoint of Marshal ∘ Unmarshal (decoding what was encoded gives
      back an equal value);
    * on the round-trip stream (`wf`: the input is the `Marshal` of a well-formed value) the
      input is accepted and re-marshals to exactly the input. -/
def propHolds (wf : Bool) (input : Bytes) (o : Obs) : Bool :=
  match o with
  | .other _ => false
  | .err => !wf
  | .ok out idem => idem && (!wf || out == input)

/-- second clause, relative to the specification (the model): an accepted value is the canonical
    form the specification assigns to the input — nothing of the input is silently dropped or
    truncated, every invariant holds — and a canonical well-formed encoding is not rejected. -/
def specHolds (o : Oracle) (ty : Nat) (input : Bytes) (obs : Obs) : Bool :=
  match unmarshal o ty input with
  | none => true
  | some r =>
    match obs with
    | .other _ => false
    | .err => (match r with
      | some out => out != input
      | none => true)
    | .ok out _ => r == some out

def holds (o : Oracle) (ty : Nat) (wf : Bool) (input : Bytes) (obs : Obs) : Bool :=
  propHolds wf input obs && specHolds o ty input obs

/-! ### two decodes: decoded values are independent of later decodes

The harness decodes `A` into a fresh value and re-marshals it (`a`), decodes `B` into another
fresh value (`b`), then re-marshals the value obtained from `A` again (`a2`). A result is
`some out` (accepted, canonical re-marshal) or `none` (error). -/

/-- **model-independent clause**: what was decoded from `A` is not changed by decoding `B`
    (no mutable state shared between decoded values). -/
def propHoldsPair (a _b a2 : Option Bytes) : Bool := a2 == a

/-- the model is a pure function of the input: both results are the single-decode predictions -/
def specHoldsPair (o : Oracle) (ty : Nat) (inA inB : Bytes) (a b : Option Bytes) : Bool :=
  (match unmarshal o ty inA with
    | some r => r == a
    | none => true) &&
  (match unmarshal o ty inB with
    | some r => r == b
    | none => true)

def holdsPair (o : Oracle) (ty : Nat) (inA inB : Bytes) (a b a2 : Option Bytes) : Bool :=
  propHoldsPair a b a2 && specHoldsPair o ty inA inB a b

end KeepVerif.C19
