/-!
# C34 model: `DetermineWalletMainUtxo` and `EnsureWalletSyncedBetweenChains` (pkg/tbtc/wallet.go)

Transactions are identified by a natural number (`tid`; the harness maps it to the real
transaction hash and back — injective by construction, A-hash).  `H` is the Bridge's
`ComputeMainUtxoHash`; it is a *parameter* of the model (hash value `0` = the zero hash), so every
theorem holds for every hash function and uniqueness is stated under injectivity of `H`.
Failing chain calls are `none` inputs.
-/
namespace KeepVerif.C34

structure Utxo where
  tid : Nat
  idx : Nat
  value : Nat
deriving DecidableEq, Repr

/-- a transaction output: does its script equal the wallet's P2PKH or P2WPKH script, and its value -/
structure Out where
  isWallet : Bool
  value : Nat
deriving DecidableEq, Repr

inductive MainRes where
  | none                 -- (nil, nil): no main UTXO registered
  | utxo (u : Utxo)
  | errWallet | errHistory | errGetTx | errNotFound
deriving DecidableEq, Repr

/-- the inner `for outputIndex, output := range transaction.Outputs` loop, from index `i` -/
def scanOutputs (H : Utxo → Nat) (reg tid : Nat) : Nat → List Out → Option Utxo
  | _, [] => none
  | i, o :: os =>
    if o.isWallet && H ⟨tid, i, o.value⟩ == reg then some ⟨tid, i, o.value⟩
    else scanOutputs H reg tid (i + 1) os

/-- the outer loop; the list is given in iteration order (newest first) -/
def scanHistory (H : Utxo → Nat) (reg : Nat) (txs : Nat → Option (List Out)) : List Nat → MainRes
  | [] => .errNotFound
  | t :: ts =>
    match txs t with
    | none => .errGetTx
    | some outs =>
      match scanOutputs H reg t 0 outs with
      | some u => .utxo u
      | none => scanHistory H reg txs ts

/-- `DetermineWalletMainUtxo`. `wallet = none`: `GetWallet` failed, otherwise the registered main
    UTXO hash; `hist = none`: the history call failed, otherwise hashes oldest first. -/
def determineMainUtxo (H : Utxo → Nat) (wallet : Option Nat) (hist : Option (List Nat))
    (txs : Nat → Option (List Out)) : MainRes :=
  match wallet with
  | none => .errWallet
  | some reg =>
    if reg = 0 then .none else
    match hist with
    | none => .errHistory
    | some h => scanHistory H reg txs h.reverse

/-! ## sync check -/

inductive SyncRes where
  | ok
  | errConf | errEmpty | errSpent
  | errMemp | errGetTx | errDepLookup | errDepositSweep | errMfsLookup | errMovedFundsSweep
deriving DecidableEq, Repr

/-- an outpoint (first input of a transaction) -/
structure Ref where
  h : Nat
  i : Nat
deriving DecidableEq, Repr

/-- the chain lookups used by the fresh-wallet branch.  `firstInput t = none`: `GetTransaction`
    fails; `isDeposit r = none` / `isMfs r = none`: the Bridge lookup fails. -/
structure Chains where
  firstInput : Nat → Option Ref
  isDeposit : Ref → Option Bool
  isMfs : Ref → Option Bool

/-- the `for _, utxo := range allUtxos` loop of the fresh-wallet branch -/
def scanFresh (c : Chains) : List Utxo → SyncRes
  | [] => .ok
  | u :: us =>
    if u.idx ≠ 0 then scanFresh c us else
    match c.firstInput u.tid with
    | none => .errGetTx
    | some r =>
      match c.isDeposit r with
      | none => .errDepLookup
      | some true => .errDepositSweep
      | some false =>
        match c.isMfs r with
        | none => .errMfsLookup
        | some true => .errMovedFundsSweep
        | some false => scanFresh c us

/-- `EnsureWalletSyncedBetweenChains`. The main-UTXO loop runs newest first, but only membership
    is observable, so it is modelled by `List.any` over the reversed list. -/
def ensureSynced (main : Option Utxo) (conf memp : Option (List Utxo)) (c : Chains) : SyncRes :=
  match conf with
  | none => .errConf
  | some cs =>
    match main with
    | some m =>
      if cs.isEmpty then .errEmpty
      else if cs.reverse.any (fun u => u.tid == m.tid && u.idx == m.idx && u.value == m.value)
      then .ok else .errSpent
    | none =>
      match memp with
      | none => .errMemp
      | some ms => scanFresh c (cs ++ ms)

/-! ## Monitors: the property as a decidable predicate on (input, what the implementation returned).
They are written declaratively (membership / quantifiers), not as the loops above. -/

/-- `u` is an output of a transaction of the history that pays the wallet, and it hashes to `reg` -/
def isCandidate (H : Utxo → Nat) (reg : Nat) (hist : List Nat) (txs : Nat → Option (List Out))
    (u : Utxo) : Bool :=
  hist.contains u.tid &&
  (match txs u.tid with
   | some outs =>
     (match outs[u.idx]? with
      | some o => o.isWallet && o.value == u.value
      | none => false)
   | none => false) &&
  H u == reg

/-- all wallet outputs of a transaction -/
def walletOutputs (tid : Nat) (outs : List Out) : List Utxo :=
  (outs.zipIdx.filter (fun p => p.1.isWallet)).map (fun p => ⟨tid, p.2, p.1.value⟩)

/-- does the history contain any candidate? -/
def anyCandidate (H : Utxo → Nat) (reg : Nat) (hist : List Nat) (txs : Nat → Option (List Out)) : Bool :=
  hist.any (fun t => match txs t with
    | some outs => (walletOutputs t outs).any (fun u => H u == reg)
    | none => false)

def holdsMain (H : Utxo → Nat) (wallet : Option Nat) (hist : Option (List Nat))
    (txs : Nat → Option (List Out)) (res : MainRes) : Bool :=
  match res with
  | .none => wallet == some 0
  | .errWallet => wallet == none
  | .errHistory => (match wallet with | some r => r != 0 | none => false) && hist == none
  | .utxo u =>
    (match wallet, hist with
     | some r, some h => r != 0 && isCandidate H r h txs u
     | _, _ => false)
  | .errNotFound =>
    (match wallet, hist with
     | some r, some h => r != 0 && !anyCandidate H r h txs
     | _, _ => false)
  | .errGetTx =>
    (match wallet, hist with
     | some r, some h => r != 0 && h.any (fun t => (txs t).isNone)
     | _, _ => false)

/-- the transaction of `u` is one of the wallet's own first transactions, by the code's criterion:
    output 0 and first input a revealed deposit or a moved funds sweep request -/
def ownSweep (c : Chains) (u : Utxo) : Bool :=
  u.idx == 0 &&
  (match c.firstInput u.tid with
   | some r => c.isDeposit r == some true || c.isMfs r == some true
   | none => false)

/-- some lookup needed to classify `u` fails -/
def lookupFails (c : Chains) (u : Utxo) : Bool :=
  u.idx == 0 &&
  (match c.firstInput u.tid with
   | none => true
   | some r => c.isDeposit r == none || (c.isDeposit r == some false && c.isMfs r == none))

def holdsSync (main : Option Utxo) (conf memp : Option (List Utxo)) (c : Chains) (res : SyncRes) : Bool :=
  match conf with
  | none => res == .errConf
  | some cs =>
    match main with
    | some m =>
      -- passes exactly when the main UTXO is still unspent
      if cs.contains m then res == .ok else (res == .errSpent || res == .errEmpty)
    | none =>
      match memp with
      | none => res == .errMemp
      | some ms =>
        let all := cs ++ ms
        if all.all (fun u => !ownSweep c u && !lookupFails c u) then res == .ok
        else if all.all (fun u => !lookupFails c u) then
          res == .errDepositSweep || res == .errMovedFundsSweep
        else res != .ok

end KeepVerif.C34
