import KeepVerif.Model.C06
/-!
# C06: small-step model of concurrent `NotifyRelayEntryStarted` calls

Thread `t` executes the call `calls[t]`.  Its two atomic actions are what `relayEntryMutex`
makes indivisible: `Lock()` (possible only while nobody holds the mutex; otherwise the thread
stays blocked) and "body + deferred `Unlock()`".  A schedule is any list of thread ids.
-/
namespace KeepVerif.C06

inductive Pc | idle | inside | done
  deriving DecidableEq, Repr

structure Sys where
  st : St
  holder : Option Nat
  pcs : List Pc
  outs : List (Nat × Out)   -- (thread, answer) in the order the bodies ran
  deriving Repr

def Sys.start (k : Nat) : Sys := ⟨init, none, List.replicate k .idle, []⟩

/-- thread `t` runs the whole method body on the shared state and releases the mutex -/
def bodyStep (s : Sys) (t : Nat) (n : Notif) : Sys :=
  { st := (step s.st n).1, holder := none, pcs := s.pcs.set t .done,
    outs := s.outs ++ [(t, (step s.st n).2)] }

def sstep (calls : List Notif) (s : Sys) (t : Nat) : Sys :=
  match s.pcs[t]?, calls[t]? with
  | some .idle, some _ =>
    if s.holder = none then { s with holder := some t, pcs := s.pcs.set t .inside } else s
  | some .inside, some n =>
    if s.holder = some t then bodyStep s t n else s
  | _, _ => s

def runSched (calls : List Notif) (sched : List Nat) : Sys :=
  sched.foldl (sstep calls) (Sys.start calls.length)

/-- the calls in the order in which their bodies ran -/
def order (calls : List Notif) (s : Sys) : List Notif := s.outs.filterMap (fun p => calls[p.1]?)

end KeepVerif.C06
