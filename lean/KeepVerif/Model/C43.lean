import KeepVerif.Gen.C43
/-!
# C43 model: `pkg/maintainer/btcdiff/bitcoin_difficulty.go`

`startControlLoop` / `proveEpochs` / `verifySubmissionEligibility` / `proveNextEpoch` /
`getBlockHeaders` / `waitForCurrentEpochUpdate` as a state machine over a scripted environment:
every kind of chain call consumes the next answer of its own queue (`none` = the call returns an
error).  A call that finds its queue empty ends the history (context cancelled).  Output = the
ordered list of chain calls.  `uint`/`uint64` arithmetic wraps modulo `2^64` as in Go.
Back-off sleeps are not modelled (they only delay).
-/
namespace KeepVerif.C43

abbrev epochLen : Nat := Gen.C43.bitcoinDifficultyEpochLength

def W : Nat := 18446744073709551616
def wadd (a b : Nat) : Nat := (a + b) % W
def wsub (a b : Nat) : Nat := (a + W - b % W) % W
def wmul (a b : Nat) : Nat := (a * b) % W

inductive Ans | t | f | e
  deriving DecidableEq, Repr

/-- chain calls with the answer they got (`none`/`.e` = error). -/
inductive Ev
  | ready (a : Ans) | auth (a : Ans) | authRefund (a : Ans)
  | height (v : Option Nat) | epoch (v : Option Nat) | len (v : Option Nat)
  | fetch (first count : Nat)
  | submit (refund : Bool) (first count : Nat)
  deriving DecidableEq, Repr

def Ev.isSubmit : Ev → Bool
  | .submit .. => true
  | _ => false

def Ev.isFetch : Ev → Bool
  | .fetch .. => true
  | _ => false

inductive Outcome | proven | idle | err | fin
  deriving DecidableEq, Repr

structure World where
  ready : List Ans
  auth : List Ans
  heights : List (Option Nat)
  epochs : List (Option Nat)
  lens : List (Option Nat)
  submits : List Bool
  hdrFail : List Nat
  deriving Repr

/-- the epoch to prove: `uint(currentEpoch) + 1`. -/
def target (ce : Nat) : Nat := wadd ce 1

/-- `firstBlockHeaderHeight`, `lastBlockHeaderHeight`. -/
def window (ce L : Nat) : Nat × Nat :=
  let neh := wmul (target ce) epochLen
  (wsub neh L, wsub (wadd neh L) 1)

/-- number of iterations of `for height := first; height <= last; height++`. -/
def headerCount (first last : Nat) : Nat := if first ≤ last then last - first + 1 else 0

/-- offset of the first failing `GetBlockHeader` within the range, if any. -/
def firstFail (hdrFail : List Nat) (first count : Nat) : Option Nat :=
  (List.range count).find? (fun k => hdrFail.contains (first + k))

/-- `waitForCurrentEpochUpdate`: number of `CurrentEpoch` answers consumed and how it ended. -/
def waitLoop (E : Nat) : List (Option Nat) → Nat × Outcome
  | [] => (0, .fin)
  | none :: _ => (1, .err)
  | some v :: rest =>
    if v ≥ E then (1, .proven) else
      let r := waitLoop E rest
      (r.1 + 1, r.2)

/-- the part of `proveNextEpoch` after the three queries and the window computation: `first`,
`last` the header range, `E` the epoch to prove, `h` the chain height; `sub` the next
`Retarget*` result (`none` = history over), `polls` the remaining `CurrentEpoch` answers.
Returns events, outcome, consumed submit answers, consumed polls. -/
def prove (disableProxy : Bool) (hdrFail : List Nat) (first last E h : Nat) (sub : Option Bool)
    (polls : List (Option Nat)) : List Ev × Outcome × Nat × Nat :=
  if h ≥ last then
    let n := headerCount first last
    match firstFail hdrFail first n with
    | some k => ([.fetch first (k + 1)], .err, 0, 0)
    | none =>
      let fetch := if n = 0 then [] else [Ev.fetch first n]
      match sub with
      | none => (fetch, .fin, 0, 0)
      | some false => (fetch ++ [.submit (!disableProxy) first n], .err, 1, 0)
      | some true =>
        let r := waitLoop E polls
        (fetch ++ [.submit (!disableProxy) first n] ++ (polls.take r.1).map .epoch, r.2, 1, r.1)
  else ([], .idle, 0, 0)

/-- `proveNextEpoch` on the world.  The window and target functions are parameters (`win`,
`tgt`): the real code is the instance `window`, `target`; the history theorems hold for every
instance, so no proof ever has to reduce the `% 2^64` arithmetic. -/
def proveNext (win : Nat → Nat → Nat × Nat) (tgt : Nat → Nat) (dp : Bool) (w : World) : List Ev × Outcome × World :=
  match w.heights with
  | [] => ([], .fin, w)
  | none :: hs => ([.height none], .err, { w with heights := hs })
  | some h :: hs =>
    match w.epochs with
    | [] => ([.height (some h)], .fin, { w with heights := hs })
    | none :: es => ([.height (some h), .epoch none], .err, { w with heights := hs, epochs := es })
    | some ce :: es =>
      match w.lens with
      | [] => ([.height (some h), .epoch (some ce)], .fin, { w with heights := hs, epochs := es })
      | none :: ls => ([.height (some h), .epoch (some ce), .len none], .err, { w with heights := hs, epochs := es, lens := ls })
      | some L :: ls =>
        let r := prove dp w.hdrFail (win ce L).1 (win ce L).2 (tgt ce) h w.submits.head? es
        ([.height (some h), .epoch (some ce), .len (some L)] ++ r.1, r.2.1,
          { w with heights := hs, epochs := es.drop r.2.2.2, lens := ls,
                   submits := w.submits.drop r.2.2.1 })

/-- the `for` loop of `proveEpochs` (fuel ≥ number of height answers + 1 is enough). -/
def proveLoop (win : Nat → Nat → Nat × Nat) (tgt : Nat → Nat) (dp : Bool) : Nat → World → List Ev × Outcome × World
  | 0, w => ([], .fin, w)
  | fuel + 1, w =>
    let r := proveNext win tgt dp w
    match r.2.1 with
    | .proven | .idle =>
      let r2 := proveLoop win tgt dp fuel r.2.2
      (r.1 ++ r2.1, r2.2.1, r2.2.2)
    | o => (r.1, o, r.2.2)

inductive SessResult | noGenesis | unauthorized | error | fin
  deriving DecidableEq, Repr

def authEv (dp : Bool) (a : Ans) : Ev := if dp then .auth a else .authRefund a

/-- `verifySubmissionEligibility`: events, `none` = eligible, and the remaining world. -/
def verify (dp : Bool) (w : World) : List Ev × Option SessResult × World :=
  match w.ready with
  | [] => ([], some .fin, w)
  | .e :: rs => ([.ready .e], some .error, { w with ready := rs })
  | .f :: rs => ([.ready .f], some .noGenesis, { w with ready := rs })
  | .t :: rs =>
    match w.auth with
    | [] => ([.ready .t], some .fin, { w with ready := rs })
    | .e :: as => ([.ready .t, authEv dp .e], some .error, { w with ready := rs, auth := as })
    | .f :: as => ([.ready .t, authEv dp .f], some .unauthorized, { w with ready := rs, auth := as })
    | .t :: as => ([.ready .t, authEv dp .t], none, { w with ready := rs, auth := as })

/-- `proveEpochs` once. -/
def session (win : Nat → Nat → Nat × Nat) (tgt : Nat → Nat) (dp : Bool) (fuel : Nat) (w : World) : List Ev × SessResult × World :=
  let v := verify dp w
  match v.2.1 with
  | some r => (v.1, r, v.2.2)
  | none =>
    let l := proveLoop win tgt dp fuel v.2.2
    (v.1 ++ l.1, (if l.2.1 = .fin then .fin else .error), l.2.2)

/-- `startControlLoop`: sessions until the history is over. -/
def controlLoop (win : Nat → Nat → Nat × Nat) (tgt : Nat → Nat) (dp : Bool) (fuel : Nat) : Nat → World → List Ev
  | 0, _ => []
  | k + 1, w =>
    let s := session win tgt dp fuel w
    if s.2.1 = .fin then s.1 else s.1 ++ controlLoop win tgt dp fuel k s.2.2

/-! ## Monitor (the property as a predicate on the observed call list)

Walks the observed calls (each with the answer the chain gave) and checks, for every `Retarget*`
call seen: the maintainer was found ready and authorised (through the configured contract's
query) earlier in the current session; the headers are exactly those of the window of
`(the CurrentEpoch answer of this round) + 1` with this round's `ProofLength` answer; this
round's chain height reached the end of the window; the submission goes through the configured
contract; nothing is submitted twice in one height/epoch/length round; and after a submission
for epoch `E` the session starts its next round (hence any further submission) only after a
`CurrentEpoch` answer `≥ E` was observed (each epoch is submitted at most once per observed relay
epoch; a failed submission ends the session, the next session starts with `Ready`). -/

structure MonState where
  eligible : Bool := false
  readyOk : Bool := false
  h : Option Nat := none
  ce : Option Nat := none
  L : Option Nat := none
  /-- number of `epoch` events since the last `height` event. -/
  k : Nat := 0
  /-- epoch submitted in this session whose confirmation by the relay is still awaited. -/
  pending : Option Nat := none
  ok : Bool := true
  deriving Repr

/-- a `CurrentEpoch` poll answer `x ≥ E` ends the wait for epoch `E`. -/
def clearPending : Option Nat → Option Nat → Option Nat
  | some E, some x => if x ≥ E then none else some E
  | p, _ => p

def submitGood (win : Nat → Nat → Nat × Nat) (tgt : Nat → Nat) (dp : Bool) (s : MonState) (refund : Bool) (first count : Nat) : Bool :=
  match s.h, s.ce, s.L with
  | some h, some ce, some L =>
    -- Bool-valued comparisons (`==`, `Nat.ble`) on purpose: no `Decidable` instance over the
    -- wrap-around arithmetic has to be evaluated in proofs
    s.eligible && (refund == !dp) && (count == headerCount (win ce L).1 (win ce L).2)
      && ((count == 0) || (first == (win ce L).1))
      && Nat.ble (win ce L).2 h && (s.k == 1)
  | _, _, _ => false

def monStep (win : Nat → Nat → Nat × Nat) (tgt : Nat → Nat) (dp : Bool) (s : MonState) (e : Ev) : MonState :=
  match e with
  | .ready a =>
    { s with readyOk := decide (a = .t), eligible := false, h := none, ce := none, L := none, k := 0,
             pending := none }
  | .auth a =>
    { s with eligible := s.readyOk && decide (a = .t), ok := s.ok && dp }
  | .authRefund a =>
    { s with eligible := s.readyOk && decide (a = .t), ok := s.ok && !dp }
  | .height v =>
    -- moving on to the next round is allowed only after the relay reported the submitted epoch
    { s with h := v, ce := none, L := none, k := 0, ok := s.ok && s.pending.isNone }
  | .epoch v =>
    if s.k = 0 then { s with ce := v, k := 1 }
    else { s with k := s.k + 1, pending := clearPending s.pending v }
  | .len v => { s with L := v }
  | .fetch _ _ => s
  | .submit refund first count =>
    { s with ok := s.ok && submitGood win tgt dp s refund first count, h := none, pending := s.ce.map tgt }

def run (win : Nat → Nat → Nat × Nat) (tgt : Nat → Nat) (dp : Bool) (s : MonState) (evs : List Ev) : MonState := evs.foldl (monStep win tgt dp) s

def holds (win : Nat → Nat → Nat × Nat) (tgt : Nat → Nat) (dp : Bool) (evs : List Ev) : Bool := (run win tgt dp {} evs).ok

end KeepVerif.C43
