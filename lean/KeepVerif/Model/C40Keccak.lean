/-!
# Keccak-256 (executable, core Lean only)

Only used by the C40 *driver* to instantiate the hash parameter `H` of the model, so that the
model's pre-image bytes can be compared with the hash values the real code returns.  No theorem
depends on this file: in `Props/C40.lean` the hash is an arbitrary function.
-/
namespace KeepVerif.C40.Keccak

def roundConstants : Array UInt64 := #[
  0x0000000000000001, 0x0000000000008082, 0x800000000000808A, 0x8000000080008000,
  0x000000000000808B, 0x0000000080000001, 0x8000000080008081, 0x8000000000008009,
  0x000000000000008A, 0x0000000000000088, 0x0000000080008009, 0x000000008000000A,
  0x000000008000808B, 0x800000000000008B, 0x8000000000008089, 0x8000000000008003,
  0x8000000000008002, 0x8000000000000080, 0x000000000000800A, 0x800000008000000A,
  0x8000000080008081, 0x8000000000008080, 0x0000000080000001, 0x8000000080008008]

def rotc : Array Nat := #[1, 3, 6, 10, 15, 21, 28, 36, 45, 55, 2, 14, 27, 41, 56, 8, 25, 43, 62, 18, 39, 61, 20, 44]
def piln : Array Nat := #[10, 7, 11, 17, 18, 3, 5, 16, 8, 21, 24, 4, 15, 23, 19, 13, 12, 2, 20, 14, 22, 9, 6, 1]

@[inline] def rotl (x : UInt64) (n : Nat) : UInt64 :=
  if n % 64 = 0 then x else (x <<< (UInt64.ofNat (n % 64))) ||| (x >>> (UInt64.ofNat (64 - n % 64)))

/-- Keccak-f[1600] on 25 lanes. -/
def permute (st0 : Array UInt64) : Array UInt64 := Id.run do
  let mut st := st0
  for round in [0:24] do
    -- theta
    let mut bc : Array UInt64 := Array.replicate 5 0
    for i in [0:5] do
      bc := bc.set! i (st[i]! ^^^ st[i+5]! ^^^ st[i+10]! ^^^ st[i+15]! ^^^ st[i+20]!)
    for i in [0:5] do
      let t := bc[(i + 4) % 5]! ^^^ rotl bc[(i + 1) % 5]! 1
      for j in [0:5] do
        st := st.set! (5 * j + i) (st[5 * j + i]! ^^^ t)
    -- rho, pi
    let mut t := st[1]!
    for i in [0:24] do
      let j := piln[i]!
      let b := st[j]!
      st := st.set! j (rotl t rotc[i]!)
      t := b
    -- chi
    for j in [0:5] do
      let mut row : Array UInt64 := Array.replicate 5 0
      for i in [0:5] do
        row := row.set! i st[5 * j + i]!
      for i in [0:5] do
        st := st.set! (5 * j + i) (row[i]! ^^^ ((~~~ row[(i + 1) % 5]!) &&& row[(i + 2) % 5]!))
    -- iota
    st := st.set! 0 (st[0]! ^^^ roundConstants[round]!)
  return st

def rate : Nat := 136

/-- XOR one 136-byte block (little-endian lanes) into the state. -/
def absorbBlock (st : Array UInt64) (blk : Array UInt8) : Array UInt64 := Id.run do
  let mut st := st
  for lane in [0:17] do
    let mut v : UInt64 := 0
    for b in [0:8] do
      v := v ||| ((blk[8 * lane + b]!).toUInt64 <<< (UInt64.ofNat (8 * b)))
    st := st.set! lane (st[lane]! ^^^ v)
  return permute st

def keccak256 (msg : List UInt8) : List UInt8 := Id.run do
  let data := msg.toArray
  let padLen := rate - data.size % rate
  let mut padded := data
  for i in [0:padLen] do
    let first : UInt8 := if i = 0 then 0x01 else 0
    let last : UInt8 := if i = padLen - 1 then 0x80 else 0
    padded := padded.push (first ||| last)
  let mut st : Array UInt64 := Array.replicate 25 0
  for k in [0:padded.size / rate] do
    st := absorbBlock st (padded.extract (k * rate) ((k + 1) * rate))
  let mut out : List UInt8 := []
  for lane in [0:4] do
    for b in [0:8] do
      out := out ++ [(st[lane]! >>> (UInt64.ofNat (8 * b))).toUInt8]
  return out

end KeepVerif.C40.Keccak
