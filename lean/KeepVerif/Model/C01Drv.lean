import KeepVerif.DriverLib
import KeepVerif.Model.C01
/-! op-line parser and observation printer of the C01/C02 drivers (core only) -/
open KeepVerif
open KeepVerif.C01

namespace C01Drv

def modNames : List String :=
  ["accw", "acc", "revw", "rev", "drop", "garb", "bad", "sess", "noS", "noC", "rs", "rm", "as",
   "cm", "cp", "pm", "pp", "pt", "px", "ox", "h"]

def parseArgs (s : String) : Option (List Nat) :=
  if s = "" then some [] else
  (s.splitOn ".").mapM (fun a => match a.toNat? with
    | some v => if v ≤ 300 then some v else none
    | none => none)

def parseMod (s : String) : Option Mod :=
  match modNames.find? (fun nm => s.startsWith nm) with
  | none => none
  | some nm =>
    match parseArgs ((s.drop nm.length).toString) with
    | some args => some ⟨nm, args⟩
    | none => none

def parseVariant (s : String) : Option Variant :=
  if s = "s" then some .silent else
  match (s.splitOn "+").mapM parseMod with
  | some ms => some (.mods ms)
  | none => none

def parseDirective (n : Nat) (d : String) : Option (Nat × Nat × List Variant) :=
  match d.splitOn "@" with
  | [m, rest] =>
    match rest.splitOn ":" with
    | [ph, vs] =>
      match m.toNat?, ph.toNat? with
      | some m, some ph =>
        if m < 1 || m > n || vs = "" then none else
        match (vs.splitOn "|").mapM parseVariant with
        | some vs => some (m, ph, vs)
        | none => none
      | _, _ => none
    | _ => none
  | _ => none

def nodupKeys : List (Nat × Nat × List Variant) → Bool
  | [] => true
  | d :: rest => !(rest.any (fun e => e.1 = d.1 && e.2.1 = d.2.1)) && nodupKeys rest

def parseOp (fixed : Bool) (line : String) : Option Cfg :=
  match splitWs line with
  | ["dkg", n, t, seed, ord, adv] =>
    match n.toNat?, t.toNat?, seed.toNat?, ord.toNat? with
    | some n, some t, some seed, some ord =>
      if n < 2 || n > 9 || t ≥ n then none else
      match (splitList adv).mapM (parseDirective n) with
      | some ds =>
        if nodupKeys ds then
          some { n := n, t := t, seed := seed, ord := ord, q := Gen.C01.order, fixed := fixed, adv := ds }
        else none
      | none => none
    | _, _, _, _ => none
  | _ => none

def sortNats (xs : List Nat) : List Nat := (xs.toArray.qsort (· < ·)).toList

def dots (xs : List Nat) : String :=
  if xs.isEmpty then "-" else ".".intercalate ((sortNats xs).map toString)

def statusStr : Status → String
  | .ok => "ok"
  | .errNoPubKey => "err:nopubkey"
  | .errNoSymKey => "err:nosymkey"
  | .panic => "panic"

def classLetter (k : Nat) : String := String.singleton (Char.ofNat ('A'.toNat + k))

/-- key classes by first appearance -/
def keyClasses (sts : List St) : List String :=
  (sts.foldl (fun (acc : List Nat × List String) st =>
    let (seen, out) := acc
    if st.status ≠ .ok then (seen, out ++ ["-"]) else
    match st.gk with
    | none => (seen, out ++ ["nil"])
    | some k =>
      match seen.idxOf? k with
      | some i => (seen, out ++ [classLetter i])
      | none => (seen ++ [k], out ++ [classLetter seen.length])) ([], [])).2

def obsC01 (cfg : Cfg) : String :=
  let hs := honestStates cfg
  let kc := keyClasses hs
  " ".intercalate ((hs.zip kc).map (fun (st, c) =>
    if st.status = .ok then
      s!"{st.id}/ok/{dots st.ia}/{dots st.dq}/{c}"
    else s!"{st.id}/{statusStr st.status}/-/-/-"))

def parseDots (s : String) : Option (List Nat) :=
  if s = "-" then some [] else (s.splitOn ".").mapM String.toNat?

def parseOut (tok : String) : Option Out :=
  match tok.splitOn "/" with
  | [i, st, ia, dq, kc] =>
    match i.toNat?, parseDots ia, parseDots dq with
    | some i, some ia, some dq =>
      let key : Option Nat := match kc.toList with
        | [c] => if 'A' ≤ c ∧ c ≤ 'Z' then some (c.toNat - 'A'.toNat) else none
        | _ => none
      some ⟨i, st = "ok", ia, dq, key⟩
    | _, _, _ => none
  | _ => none

end C01Drv
