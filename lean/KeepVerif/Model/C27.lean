import KeepVerif.Model.C27Script
/-!
# C27 model: `TransactionBuilder` (pkg/bitcoin/transaction_builder.go)

`AddPublicKeyHashInput`, `AddScriptHashInput`, `ComputeSignatureHashes`, `AddSignatures` as
functions on byte strings; validation of the produced inputs by the shared txscript model
(`Model/C27Script.lean`).  The signature hash is an abstract function of exactly the arguments
the builder passes to `txscript.CalcSignatureHash` / `CalcWitnessSigHash` (input index, script
code, hash type, sigversion, amount); the same function is what the interpreter model's
OP_CHECKSIG evaluates, with the arguments btcd's engine uses.
-/
namespace KeepVerif.C27
open KeepVerif.Script

/-- external functions + the transaction-wide data, for all inputs of one transaction -/
structure TxCtx (D : Type) where
  hash160 : Bytes → Bytes
  sha256 : Bytes → Bytes
  sigEnc : Bytes → Option Err
  parsePk : Bytes → Bool
  /-- digest for (input index, script code, hash type, witness sigversion, amount) -/
  sighash : Nat → Bytes → UInt8 → Bool → Int → D
  verify : Bytes → Bytes → D → Bool

/-- the builder's transactions have locktime 0 and final sequences (`wire.NewTxIn`) -/
def TxCtx.at {D} (t : TxCtx D) (i : Nat) (amount : Int) : Ctx D :=
  { hash160 := t.hash160, sha256 := t.sha256, sigEnc := t.sigEnc, parsePk := t.parsePk,
    sighash := t.sighash i, verify := t.verify, locktime := 0, sequence := maxSequence,
    amount := amount }

/-- which builder method is called for the input -/
inductive AddKind | pkh | sh
  deriving DecidableEq, Repr

structure InSpec where
  add : AddKind
  /-- locking script the chain returns for the outpoint -/
  utxoScript : Bytes
  /-- `utxo.Value` -/
  value : Int
  /-- `redeemScript` argument of `AddScriptHashInput` -/
  redeem : Bytes
  deriving DecidableEq, Repr

/-- builder state for one input: `inputSigHashArgs` + the pre-filled unlocking data -/
structure BIn where
  witness : Bool
  scriptCode : Bytes
  value : Int
  preScriptSig : Bytes
  preWitness : List Bytes
  deriving DecidableEq, Repr

inductive BErr
  | notPKH (i : Nat) | notSH (i : Nat) | sighash (i : Nat) | noHashes | sigCount
  | invalidSig (i : Nat) | buildScript (i : Nat)
  deriving DecidableEq, Repr

def BErr.name : BErr → String
  | .notPKH i => s!"err:not-pkh:{i}" | .notSH i => s!"err:not-sh:{i}"
  | .sighash i => s!"err:sighash:{i}" | .noHashes => "err:nohashes" | .sigCount => "err:sigcount"
  | .invalidSig i => s!"err:invalid-signature:{i}" | .buildScript i => s!"err:build-script:{i}"

/-- `AddPublicKeyHashInput` / `AddScriptHashInput` for input number `i` -/
def addInput (i : Nat) (s : InSpec) : Except BErr BIn :=
  let cls := classify s.utxoScript
  let w := isWitnessProgramBytes s.utxoScript
  match s.add with
  | .pkh =>
    if cls = .pkh ∨ cls = .wpkh then
      .ok { witness := w, scriptCode := s.utxoScript, value := s.value, preScriptSig := [],
            preWitness := [] }
    else .error (.notPKH i)
  | .sh =>
    if cls = .sh ∨ cls = .wsh then
      .ok { witness := w, scriptCode := s.redeem, value := s.value,
            preScriptSig := if w then [] else s.redeem,
            preWitness := if w then [s.redeem] else [] }
    else .error (.notSH i)

def addInputs : Nat → List InSpec → Except BErr (List BIn)
  | _, [] => .ok []
  | i, s :: rest =>
    match addInput i s with
    | .error e => .error e
    | .ok b =>
      match addInputs (i + 1) rest with
      | .error e => .error e
      | .ok bs => .ok (b :: bs)

def sigHashAll : UInt8 := 1

/-- the digest `ComputeSignatureHashes` computes for input `i` (SigHashAll).
    `CalcWitnessSigHash` serialises the BIP-143 script code (P2WPKH → P2PKH form). -/
def builderDigest {D} (t : TxCtx D) (i : Nat) (b : BIn) : D :=
  if b.witness then t.sighash i (bip143Code b.scriptCode) sigHashAll true b.value
  else t.sighash i b.scriptCode sigHashAll false 0

/-- `ComputeSignatureHashes`: both btcd functions fail on a script code that does not parse -/
def computeHashes {D} (t : TxCtx D) : Nat → List BIn → Except BErr (List D)
  | _, [] => .ok []
  | i, b :: rest =>
    match parse b.scriptCode with
    | none => .error (.sighash i)
    | some _ =>
      match computeHashes t (i + 1) rest with
      | .error e => .error e
      | .ok ds => .ok (builderDigest t i b :: ds)

/-- `SignatureContainer`: compressed public key bytes and the DER signature
    (`btcec.Signature.Serialize`, which also normalises S to the low half). -/
structure SigC where
  pk : Bytes
  der : Bytes
  deriving DecidableEq, Repr

/-- unlocking data of one input: (signature script, witness) -/
abbrev Unlock := Bytes × List Bytes

/-- the per-input body of `AddSignatures` after the signature check -/
def unlockFor (b : BIn) (s : SigC) : Option Unlock :=
  let sigFull := s.der ++ [sigHashAll]
  if b.witness then
    some ([], [sigFull, s.pk] ++ (if b.preWitness.length = 1 then b.preWitness else []))
  else
    let items := [sigFull, s.pk] ++ (if b.preScriptSig.length > 0 then [b.preScriptSig] else [])
    if items.any (fun x => decide (x.length > 520)) then none     -- ScriptBuilder: ErrScriptNotCanonical
    else some (items.flatMap pushData, [])

def addSigsFrom {D} (t : TxCtx D) : Nat → List BIn → List D → List SigC → Except BErr (List Unlock)
  | i, b :: bs, d :: ds, s :: ss =>
    if !t.verify s.pk s.der d then .error (.invalidSig i)
    else match unlockFor b s with
      | none => .error (.buildScript i)
      | some u =>
        match addSigsFrom t (i + 1) bs ds ss with
        | .error e => .error e
        | .ok us => .ok (u :: us)
  | _, _, _, _ => .ok []

/-- `AddSignatures` -/
def addSignatures {D} (t : TxCtx D) (bs : List BIn) (hashes : List D) (sigs : List SigC) :
    Except BErr (List Unlock) :=
  if hashes.length = 0 then .error .noHashes
  else if sigs.length ≠ bs.length then .error .sigCount
  else addSigsFrom t 0 bs hashes sigs

/-- the whole flow of `walletTransactionExecutor.signTransaction`: add inputs, compute the
    signature hashes, obtain one signature per hash from `sign`, apply them -/
def buildAndSign {D} (t : TxCtx D) (ins : List InSpec) (sign : List D → List SigC) :
    Except BErr (List BIn × List Unlock) :=
  match addInputs 0 ins with
  | .error e => .error e
  | .ok bs =>
    match computeHashes t 0 bs with
    | .error e => .error e
    | .ok hs =>
      match addSignatures t bs hs (sign hs) with
      | .error e => .error e
      | .ok us => .ok (bs, us)

/-- script validation of input `i` of the signed transaction against its UTXO -/
def validate {D} (t : TxCtx D) (i : Nat) (s : InSpec) (u : Unlock) : Except Err Unit :=
  verifyInput (t.at i s.value) u.1 u.2 s.utxoScript

def accepted (r : Except Err Unit) : Bool :=
  match r with
  | .ok _ => true
  | .error _ => false

/-- what the model predicts the implementation shows: was a transaction produced, and the
    verdict of the script interpreter for each of its inputs -/
def modelOutcome {D} (t : TxCtx D) (ins : List InSpec) (sign : List D → List SigC) :
    Bool × List Bool :=
  match buildAndSign t ins sign with
  | .error _ => (false, [])
  | .ok (_, us) =>
    (true, (List.range us.length).map fun j =>
      match ins[j]?, us[j]? with
      | some s, some u => accepted (validate t j s u)
      | _, _ => false)

/-! ## Monitor -/

/-- C27 as a predicate on what the implementation did: if every supplied signature verifies for
    the digest of its own input (`sigOk`), a transaction must come out and every input must be
    accepted (`verdicts`); if some signature does not, no transaction may come out. -/
def holds (sigOk : List Bool) (txProduced : Bool) (verdicts : List Bool) : Bool :=
  if sigOk.all id then txProduced && verdicts.all id && verdicts.length == sigOk.length
  else !txProduced

end KeepVerif.C27
