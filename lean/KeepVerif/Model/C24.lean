import KeepVerif.Gen.C24
/-!
# C24 model: `executeFollowerRoutine` (pkg/tbtc/coordination.go)

The routine is a fold over the messages delivered before the context ends (the history), with
the code's filter order.  Operators are natural numbers (their chain address; the address of a
message's real network key is `Msg.net`: `PublicKeyBytesToAddress` is a function of the key).
`wallet = 0` means "the coordinated wallet's public key hash".  Group size ≤ 255 (`uint8` index).
-/
namespace KeepVerif.C24

structure Msg where
  kind : Nat    -- 0 = *coordinationMessage, anything else = another payload type
  net : Nat     -- operator whose network key signed / sent the message
  sid : Nat     -- senderID claimed inside the message (uint8)
  blk : Nat     -- coordinationBlock inside the message
  wallet : Nat  -- 0 = this wallet's public key hash, k > 0 = some other hash
  act : Nat     -- proposal.ActionType()
  tag : Nat     -- identifies the proposal payload
deriving DecidableEq, Repr

structure Cfg where
  seats : List Nat     -- wallet.signingGroupOperators: seat i (0-based) has member index i+1
  self : List Nat      -- ce.membersIndexes
  leader : Nat
  block : Nat
  allowed : List Nat   -- actionsAllowed

inductive FaultType | idleness | mistake | impersonation
deriving DecidableEq, Repr

structure Fault where
  type : FaultType
  culprit : Nat
deriving DecidableEq, Repr

/-- member indexes (from `i`) of the seats held by `op`, ascending -/
def membersFrom (i : Nat) : List Nat → Nat → List Nat
  | [], _ => []
  | s :: ss, op => if s = op then i :: membersFrom (i + 1) ss op else membersFrom (i + 1) ss op

/-- `wallet.membersByOperator` -/
def membersByOperator (seats : List Nat) (op : Nat) : List Nat := membersFrom 1 seats op

/-- `membersByOperator(leader)[0]`; `none` = index-out-of-range panic (leader backs no seat) -/
def leaderID? (cfg : Cfg) : Option Nat := (membersByOperator cfg.seats cfg.leader).head?

/-- `MembershipValidator.IsValidMembership`: `index := int(memberID - 1)` in `uint8` arithmetic -/
def validMembership (seats : List Nat) (sid net : Nat) : Bool :=
  seats[(sid + 255) % 256]? == some net

inductive Outcome
  | skip
  | fault (f : Fault)
  | accept (act tag : Nat)
deriving DecidableEq, Repr

/-- one iteration of the receive loop, in the code's order of checks -/
def classify (cfg : Cfg) (lid : Nat) (m : Msg) : Outcome :=
  if m.kind ≠ 0 then .skip
  else if cfg.self.contains m.sid then .skip
  else if !validMembership cfg.seats m.sid m.net then .skip
  else if m.blk ≠ cfg.block then .skip
  else if m.wallet ≠ 0 then .skip
  else if m.sid ≠ lid then .fault ⟨.impersonation, m.net⟩
  else if !cfg.allowed.contains m.act then .fault ⟨.mistake, cfg.leader⟩
  else .accept m.act m.tag

/-- the loop; `[]` = the context is done -/
def run (cfg : Cfg) (lid : Nat) : List Msg → List Fault → Option (Nat × Nat) × List Fault
  | [], fs => (none, fs ++ [⟨.idleness, cfg.leader⟩])
  | m :: ms, fs =>
    match classify cfg lid m with
    | .skip => run cfg lid ms fs
    | .fault f => run cfg lid ms (fs ++ [f])
    | .accept a t => (some (a, t), fs)

def follower (cfg : Cfg) (msgs : List Msg) : Option (Option (Nat × Nat) × List Fault) :=
  (leaderID? cfg).map fun lid => run cfg lid msgs []

/-- consecutive windows on one executor: the routine keeps no state between windows -/
def followerSeq (cfgs : List (Cfg × List Msg)) : List (Option (Option (Nat × Nat) × List Fault)) :=
  cfgs.map fun c => follower c.1 c.2

/-! ## `coordinate()` on the follower side: the routine's context ends at the end of the
active phase (`window.activePhaseEndBlock()`), so the history the routine sees is what arrived
before the chain clock reached that block. -/

inductive Ev
  | msg (m : Msg)
  | clock (block : Nat)   -- the chain clock reaches `block`

/-- `coordinationWindow.activePhaseEndBlock` -/
def activePhaseEndBlock (coordinationBlock : Nat) : Nat :=
  coordinationBlock + Gen.C24.activePhaseDurationBlocks

/-- the messages delivered before the clock reached `endB` -/
def activeMsgs (endB : Nat) : List Ev → List Msg
  | [] => []
  | .msg m :: r => m :: activeMsgs endB r
  | .clock b :: r => if endB ≤ b then [] else activeMsgs endB r

/-- follower side of `coordinate`: the block the context is cancelled at, and the routine's result -/
def coordinateFollower (cfg : Cfg) (evs : List Ev) : Nat × Option (Option (Nat × Nat) × List Fault) :=
  (activePhaseEndBlock cfg.block, follower cfg (activeMsgs (activePhaseEndBlock cfg.block) evs))

/-! ## Monitor: the property as a predicate on (history, what the implementation returned) -/

/-- passed type / self / membership / window / wallet filters -/
def qualifies (cfg : Cfg) (m : Msg) : Bool :=
  m.kind == 0 && !cfg.self.contains m.sid && validMembership cfg.seats m.sid m.net
    && m.blk == cfg.block && m.wallet == 0

def acceptable (cfg : Cfg) (lid : Nat) (m : Msg) : Bool :=
  qualifies cfg m && m.sid == lid && cfg.allowed.contains m.act

def holds (cfg : Cfg) (msgs : List Msg) (prop : Option (Nat × Nat)) (faults : List Fault) : Bool :=
  match leaderID? cfg with
  | none => false
  | some lid =>
    -- the accepted proposal is the first acceptable message's; nothing acceptable ⇒ nothing accepted
    (prop == (msgs.find? (acceptable cfg lid)).map (fun m => (m.act, m.tag)))
    -- idleness: recorded (once, against the leader) iff no proposal was returned
    && ((faults.filter (fun f => f.type == .idleness)) ==
          (if prop.isNone then [⟨.idleness, cfg.leader⟩] else []))
    -- impersonation faults name the real sender of a qualifying message with a foreign index
    && faults.all (fun f => f.type != .impersonation ||
          msgs.any (fun m => qualifies cfg m && m.sid != lid && m.net == f.culprit))
    -- mistakes are the leader's own disallowed proposals
    && faults.all (fun f => f.type != .mistake ||
          (f.culprit == cfg.leader &&
            msgs.any (fun m => qualifies cfg m && m.sid == lid && !cfg.allowed.contains m.act)))

end KeepVerif.C24
