import KeepVerif.Gen.C22
import KeepVerif.Model.C22Sha256
/-!
# C22 model: `getSeed`, `getLeader`, `getActionsChecklist` (pkg/tbtc/coordination.go)

Operator addresses are natural numbers (the harness uses 40-digit lower-case hex strings, for
which Go's string `<` is the numeric order).  `math/rand` is a parameter: `rng n` is the swap
sequence `Shuffle(n, ·)` performs for the source seeded with the first 8 seed bytes, `k` the
numerator of its first `Float64()` draw (`k / 2^53`).  Theorems hold for every `rng` and `k`.
-/
namespace KeepVerif.C22
open Gen.C22

/-- insert into a strictly ascending list, dropping a duplicate -/
def insertU (a : Nat) : List Nat → List Nat
  | [] => [a]
  | b :: bs => if a < b then a :: b :: bs else if a = b then b :: bs else b :: insertU a bs

/-- `allOperators.Set()` followed by `sort.Slice(…, <)`: the ascending list of unique operators.
    (The map iteration order is irrelevant: see `sortDedup_eq_of_same_set`.) -/
def sortDedup (ops : List Nat) : List Nat := ops.foldr insertU []

/-- the `swap(i, j)` callbacks of `rng.Shuffle` applied in order -/
def applySwaps (sw : List (Nat × Nat)) (l : List Nat) : List Nat :=
  (sw.foldl (fun a p => a.swapIfInBounds p.1 p.2) l.toArray).toList

/-- `getLeader`: `none` is the index-out-of-range panic of `uniqueOperators[0]` on an empty group. -/
def getLeader (rng : Nat → List (Nat × Nat)) (ops : List Nat) : Option Nat :=
  let u := sortDedup ops
  (applySwaps (rng u.length) u).head?

/-- `rng.Float64() < coordinationHeartbeatProbability` with `Float64() = k / 2^53` -/
def draw (k : Nat) : Bool := decide (k * heartbeatProbDen < heartbeatProbNum * 2 ^ 53)

/-- `getActionsChecklist` -/
def checklist (idx : Nat) (hb : Bool) : List Nat :=
  if idx = 0 then [] else
    [actionRedemption]
      ++ (if idx % frequencyWindows = 0 then [actionDepositSweep] else [])
      ++ (if idx % frequencyWindows = 0 then [actionMovedFundsSweep] else [])
      ++ (if idx % frequencyWindows = 0 then [actionMovingFunds] else [])
      ++ (if hb then [actionHeartbeat] else [])

/-- `coordinationWindow.index` -/
def windowIndex (block : Nat) : Nat :=
  if block % coordinationFrequencyBlocks = 0 then block / coordinationFrequencyBlocks else 0

/-- `coordinationBlock - coordinationSafeBlockShift` in `uint64` -/
def safeBlockNumber (block : Nat) : Nat := (block + 2 ^ 64 - safeBlockShift) % 2 ^ 64

/-- `getSeed` given the wallet public key hash and the hash of the safe block -/
def getSeed (pkh safeBlockHash : List UInt8) : List UInt8 := Sha256.sha256 (pkh ++ safeBlockHash)

/-! ## Monitor -/

def sameSet (a b : List Nat) : Bool := a.all b.contains && b.all a.contains

/-- (view, observed leader) pairs: every leader is an operator of its view, and views with
    the same operator set agree -/
def holdsLeader (vls : List (List Nat × Nat)) : Bool :=
  vls.all (fun vl => vl.1.contains vl.2)
  && vls.all (fun vl => vls.all (fun wl => !sameSet vl.1 wl.1 || decide (vl.2 = wl.2)))

/-- a sequence of elections on one executor: the code keeps no state between calls, so it is the
    election of every window on its own -/
def leaderSeq (rngs : List (Nat → List (Nat × Nat))) (ops : List Nat) : List (Option Nat) :=
  rngs.map fun rng => getLeader rng ops

/-- sequence monitor: the long-lived member and a member without history agree in every window,
    every leader is an operator, and the same seed gives the same leader again -/
def holdsLeaderSeq (view : List Nat) (seeds : List Nat) (long fresh : List Nat) : Bool :=
  long == fresh && long.all view.contains
  && (seeds.zip long).all (fun a => (seeds.zip long).all (fun b => a.1 != b.1 || a.2 == b.2))

def canonicalOrder : List Nat :=
  [actionRedemption, actionDepositSweep, actionMovedFundsSweep, actionMovingFunds, actionHeartbeat]

def isSublistOf : List Nat → List Nat → Bool
  | [], _ => true
  | _ :: _, [] => false
  | a :: as, b :: bs => if a = b then isSublistOf as bs else isSublistOf (a :: as) bs

/-- the checklist property as a predicate on an observed list -/
def holdsChecklist (idx : Nat) (hb : Bool) (obs : List Nat) : Bool :=
  if idx = 0 then obs.isEmpty else
    obs.head? == some actionRedemption
    && isSublistOf obs canonicalOrder
    && (obs.contains actionDepositSweep == decide (idx % frequencyWindows = 0))
    && (obs.contains actionMovedFundsSweep == decide (idx % frequencyWindows = 0))
    && (obs.contains actionMovingFunds == decide (idx % frequencyWindows = 0))
    && (obs.contains actionHeartbeat == hb)

end KeepVerif.C22
