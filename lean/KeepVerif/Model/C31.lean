import KeepVerif.Model.C29
/-!
# C31 model: `AssembleSpvProof` (pkg/bitcoin/spv_proof.go) against an append-only chain

* Bitcoin Merkle tree (last node duplicated on odd levels), `branch`, `verifyBranch`; the hash
  `H` (double SHA-256) and `S` (single SHA-256) are parameters.
* An Electrum-like oracle over a chain of blocks of which only a prefix (the *tip*) is visible;
  the tip may grow between any two queries: `tips k` is the tip seen by the `k`-th query.
* `assemble` = the code, query by query (confirmations first, latest height later).
* `verify` = an independent verifier shaped after the Bridge's proof validation.
-/
namespace KeepVerif.C31
open KeepVerif.C29 (Bytes le serialize Tx TxIn TxOut)

section
variable (H : Bytes → Bytes) (S : Bytes → Bytes)

/-! ## Merkle tree -/

def pairUp : List Bytes → List Bytes
  | [] => []
  | [a] => [H (a ++ a)]
  | a :: b :: rest => H (a ++ b) :: pairUp rest

/-- root with fuel (`fuel ≥ length` suffices) -/
def rootF : Nat → List Bytes → Bytes
  | 0, l => l.getD 0 []
  | f + 1, l => if l.length ≤ 1 then l.getD 0 [] else rootF f (pairUp H l)

def merkleRoot (leaves : List Bytes) : Bytes := rootF H leaves.length leaves

def sibling (l : List Bytes) (pos : Nat) : Bytes :=
  l.getD (if pos % 2 = 0 then pos + 1 else pos - 1) (l.getD pos [])

def branchF : Nat → List Bytes → Nat → List Bytes
  | 0, _, _ => []
  | f + 1, l, pos =>
    if l.length ≤ 1 then [] else sibling l pos :: branchF f (pairUp H l) (pos / 2)

def branch (leaves : List Bytes) (pos : Nat) : List Bytes := branchF H leaves.length leaves pos

/-- the verifier's walk (Bridge `verifyHash256Merkle`): sibling on the left iff the index bit is 1 -/
def verifyBranch (cur : Bytes) (idx : Nat) : List Bytes → Bytes
  | [] => cur
  | n :: ns => verifyBranch (if idx % 2 = 1 then H (n ++ cur) else H (cur ++ n)) (idx / 2) ns

/-! ## chain and oracle -/

structure Block where
  header : Bytes
  leaves : List Bytes
  coinbaseRaw : Bytes
deriving Repr

inductive Err where
  | notFound | confirmations | header | merkle | coinbase
deriving Repr, DecidableEq

structure Proof where
  merkle : Bytes
  index : Nat
  headers : Bytes
  preimage : Bytes
  coinbaseProof : Bytes
deriving Repr, DecidableEq

def indexOf (l : List Bytes) (x : Bytes) : Option Nat :=
  match l with
  | [] => none
  | y :: ys => if y = x then some 0 else (indexOf ys x).map (· + 1)

/-- height of the first visible block (≤ tip) containing the transaction -/
def findHeightFrom (chain : List Block) (tip : Nat) (txid : Bytes) (h : Nat) : Option Nat :=
  match chain with
  | [] => none
  | b :: bs =>
    if h > tip then none
    else if (indexOf b.leaves txid).isSome then some h
    else findHeightFrom bs tip txid (h + 1)

def findHeight (chain : List Block) (tip : Nat) (txid : Bytes) : Option Nat :=
  findHeightFrom chain tip txid 0

/-- `GetBlockHeader(height)` at tip -/
def headerAt (chain : List Block) (tip height : Nat) : Option Bytes :=
  if height ≤ tip then (chain[height]?).map (·.header) else none

/-- `GetTransactionMerkleProof(txid, height)`: fails unless the block at `height` is visible and
    contains the transaction; node hashes come in RPC (reversed) byte order. -/
def merkleQuery (chain : List Block) (tip : Nat) (txid : Bytes) (height : Nat) :
    Option (List Bytes × Nat) :=
  if height ≤ tip then
    match chain[height]? with
    | none => none
    | some b =>
      match indexOf b.leaves txid with
      | none => none
      | some pos => some ((branch H b.leaves pos).map List.reverse, pos)
  else none

/-- `GetCoinbaseTxHash(height)` -/
def coinbaseQuery (chain : List Block) (tip height : Nat) : Option Bytes :=
  if height ≤ tip then
    match chain[height]? with
    | none => none
    | some b => b.leaves.head?
  else none

/-- `createMerkleProof`: every node reversed back and concatenated -/
def createMerkleProof (nodes : List Bytes) : Bytes := nodes.flatMap List.reverse

/-- `getHeadersChain`: `n` headers from `height`, the `i`-th one asked at query `q + i` -/
def getHeaders (chain : List Block) (tips : Nat → Nat) (q height : Nat) : Nat → Option (List Bytes)
  | 0 => some []
  | n + 1 =>
    match headerAt chain (tips q) height with
    | none => none
    | some hd =>
      match getHeaders chain tips (q + 1) (height + 1) n with
      | none => none
      | some rest => some (hd :: rest)

/-- `AssembleSpvProof`.  Query numbering: 0 confirmations, 1 transaction, 2 latest height,
    3 … 2+req headers, then Merkle proof, coinbase hash, coinbase transaction, coinbase proof. -/
def assemble (chain : List Block) (tips : Nat → Nat) (txid : Bytes) (req : Nat) : Except Err Proof :=
  match findHeight chain (tips 0) txid with
  | none => .error .notFound
  | some h =>
    let conf := tips 0 - h + 1
    if conf < req then .error .confirmations else
    let latest := tips 2
    -- `latestBlockHeight - confirmations + 1` in `uint` arithmetic (wraps through -1 for height 0)
    let txH := (latest + 18446744073709551616 - conf + 1) % 18446744073709551616
    match getHeaders chain tips 3 txH req with
    | none => .error .header
    | some hs =>
      let k := 3 + req
      match merkleQuery H chain (tips k) txid txH with
      | none => .error .merkle
      | some (nodes, pos) =>
        match coinbaseQuery chain (tips (k + 1)) txH with
        | none => .error .coinbase
        | some cb =>
          match merkleQuery H chain (tips (k + 3)) cb txH with
          | none => .error .merkle
          | some (cnodes, _) =>
            .ok { merkle := createMerkleProof nodes
                  index := pos
                  headers := hs.flatten
                  preimage := S (((chain[txH]?).map (·.coinbaseRaw)).getD [])
                  coinbaseProof := createMerkleProof cnodes }

/-! ## independent verifier -/

def chunksF (n : Nat) : Nat → Bytes → List Bytes
  | 0, _ => []
  | f + 1, bs => if bs.isEmpty then [] else bs.take n :: chunksF n f (bs.drop n)

def chunks (n : Nat) (bs : Bytes) : List Bytes := chunksF n bs.length bs

def headerPrev (hd : Bytes) : Bytes := (hd.drop 4).take 32
def headerRoot (hd : Bytes) : Bytes := (hd.drop 36).take 32

def linked : List Bytes → Bool
  | a :: b :: rest => decide (headerPrev b = H a) && linked (b :: rest)
  | _ => true

/-- accepts iff: `req ≥ 1` headers of 80 bytes, each linked to its predecessor by hash; the
    Merkle path from `txid` at `index` ends in the first header's Merkle root; the coinbase
    (`S preimage`) proves to the same root at position 0 with a path of the same length. -/
def verify (txid : Bytes) (req : Nat) (p : Proof) : Bool :=
  let hs := chunks 80 p.headers
  decide (1 ≤ req) && decide (p.headers.length = 80 * req) && linked H hs &&
  decide (p.merkle.length % 32 = 0) &&
  decide (verifyBranch H txid p.index (chunks 32 p.merkle) = headerRoot (hs.getD 0 [])) &&
  decide (p.coinbaseProof.length = p.merkle.length) &&
  decide (verifyBranch H (S p.preimage) 0 (chunks 32 p.coinbaseProof) = headerRoot (hs.getD 0 []))

end

/-! ## the concrete chain both the harness and the driver derive from the op line -/

def zeros32 : Bytes := List.replicate 32 0

def coinbaseTx (seed h : Nat) : Tx :=
  { version := 1
    ins := [{ hash := zeros32, index := 4294967295, script := le 4 h ++ le 4 seed, witness := [],
              sequence := 4294967295 }]
    outs := [{ value := 5000000000, script := [0x51] }]
    locktime := 0 }

def targetTx (H : Bytes → Bytes) (seed : Nat) : Tx :=
  { version := 2
    ins := [{ hash := H (le 4 seed), index := 1, script := [], witness := [[1, 2, 3], [4]],
              sequence := 4294967293 }]
    outs := [{ value := 1000 + seed, script := [0, 20] ++ (H (le 4 seed)).take 20 }]
    locktime := 0 }

def leafOf (H : Bytes → Bytes) (seed txH txPos h i : Nat) : Bytes :=
  if i = 0 then H (serialize false (coinbaseTx seed h))
  else if h = txH ∧ i = txPos then H (serialize false (targetTx H seed))
  else H (le 4 seed ++ le 4 h ++ le 4 i)

def mkHeader (seed h : Nat) (prev root : Bytes) : Bytes :=
  le 4 536870912 ++ prev ++ root ++ le 4 (1600000000 + 600 * h) ++ le 4 486604799 ++ le 4 ((seed + h) % 4294967296)

def mkChainFrom (H : Bytes → Bytes) (seed txH txPos : Nat) : List Nat → Nat → Bytes → List Block
  | [], _, _ => []
  | c :: cs, h, prev =>
    let leaves := (List.range c).map (leafOf H seed txH txPos h)
    let hd := mkHeader seed h prev (merkleRoot H leaves)
    { header := hd, leaves := leaves, coinbaseRaw := serialize false (coinbaseTx seed h) } ::
      mkChainFrom H seed txH txPos cs (h + 1) (H hd)

def mkChain (H : Bytes → Bytes) (seed txH txPos : Nat) (counts : List Nat) : List Block :=
  mkChainFrom H seed txH txPos counts 0 zeros32

/-- tips from a growth schedule: `g_k` blocks appear after query `k`, capped at the last block -/
def tipsOf (tip0 last : Nat) (growth : List Nat) : Nat → Nat
  | 0 => min tip0 last
  | k + 1 => min (tipsOf tip0 last growth k + growth.getD k 0) last

def targetId (H : Bytes → Bytes) (seed txH txPos : Nat) : Bytes :=
  if txPos = 0 then H (serialize false (coinbaseTx seed txH)) else H (serialize false (targetTx H seed))

end KeepVerif.C31
