import KeepVerif.Gen.C46
/-!
# C46 model: wallet action deadlines (`pkg/tbtc` deposit_sweep / redemption / moving_funds /
moved_funds_sweep / heartbeat / signing / signing_loop / node)

Everything here is assembled from `Gen/C46.lean`, which the check regenerates from the code:
the constants come from the compiled package, the start / timeout / guard expressions are the
source expressions of each action's `execute` (arguments of `signTransaction`,
`withCancelOnBlock`, `sign`), of `processCoordinationResult` (expiry), of `signingExecutor.sign`
(loop timeout) and of `signingAttemptMaximumBlocks`.  Every action starts at the end of a coordination window; the model is parametrised by that
window's coordination block `cb`.  Block numbers are `Nat` (heights are far
below 2^64, A-bc); Go's `uint64` subtraction is guarded by the extracted `…GuardFails` checks.
-/
namespace KeepVerif.C46
open KeepVerif.Gen.C46

inductive Action | depositSweep | redemption | movingFunds | movedFundsSweep | heartbeat
  deriving DecidableEq, Repr

def Action.all : List Action := [.depositSweep, .redemption, .movingFunds, .movedFundsSweep, .heartbeat]

/-- `proposal.ValidityBlocks()` (value returned by the compiled method). -/
def validity : Action → Nat
  | .depositSweep => depositSweepCompiledValidity
  | .redemption => redemptionCompiledValidity
  | .movingFunds => movingFundsCompiledValidity
  | .movedFundsSweep => movedFundsSweepCompiledValidity
  | .heartbeat => heartbeatCompiledValidity

/-- the documented proposal validity constant. -/
def validityConst : Action → Nat
  | .depositSweep => depositSweepProposalValidityBlocks
  | .redemption => redemptionProposalValidityBlocks
  | .movingFunds => movingFundsProposalValidityBlocks
  | .movedFundsSweep => movedFundsSweepProposalValidityBlocks
  | .heartbeat => heartbeatTotalProposalValidityBlocks

/-- the documented safety margin that must remain after the signing deadline: the signing
timeout safety margin of the transaction actions; for the heartbeat the blocks reserved for the
inactivity claim. -/
def margin : Action → Nat
  | .depositSweep => depositSweepSigningTimeoutSafetyMarginBlocks
  | .redemption => redemptionSigningTimeoutSafetyMarginBlocks
  | .movingFunds => movingFundsSigningTimeoutSafetyMarginBlocks
  | .movedFundsSweep => movedFundsSweepSigningTimeoutSafetyMarginBlocks
  | .heartbeat => heartbeatInactivityClaimValidityBlocks

/-- the margin field the real constructor put into the action struct. -/
def compiledMargin : Action → Nat
  | .depositSweep => depositSweepCompiledMargin
  | .redemption => redemptionCompiledMargin
  | .movingFunds => movingFundsCompiledMargin
  | .movedFundsSweep => movedFundsSweepCompiledMargin
  | .heartbeat => heartbeatInactivityClaimValidityBlocks

/-- `node.go` `processCoordinationResult`: `startBlock := result.window.endBlock()` for the
coordination window at coordination block `cb`. -/
def start (cb : Nat) : Nat := actionStart cb

/-- `node.go`: the `expiryBlock` expression (today `startBlock + proposal.ValidityBlocks()`). -/
def expiry (a : Action) (cb : Nat) : Nat := proposalExpiry cb (start cb) (validity a)

def signStart (a : Action) (cb : Nat) : Nat :=
  match a with
  | .depositSweep => depositSweepSignStart (start cb) (expiry a cb)
  | .redemption => redemptionSignStart (start cb) (expiry a cb)
  | .movingFunds => movingFundsSignStart (start cb) (expiry a cb)
  | .movedFundsSweep => movedFundsSweepSignStart (start cb) (expiry a cb)
  | .heartbeat => heartbeatSignStart (start cb) (expiry a cb)

def signEnd (a : Action) (cb : Nat) : Nat :=
  match a with
  | .depositSweep => depositSweepSignEnd (start cb) (expiry a cb)
  | .redemption => redemptionSignEnd (start cb) (expiry a cb)
  | .movingFunds => movingFundsSignEnd (start cb) (expiry a cb)
  | .movedFundsSweep => movedFundsSweepSignEnd (start cb) (expiry a cb)
  | .heartbeat => heartbeatSignEnd (start cb) (expiry a cb)

def guardFails (a : Action) (cb : Nat) : Bool :=
  match a with
  | .depositSweep => depositSweepGuardFails (start cb) (expiry a cb)
  | .redemption => redemptionGuardFails (start cb) (expiry a cb)
  | .movingFunds => movingFundsGuardFails (start cb) (expiry a cb)
  | .movedFundsSweep => movedFundsSweepGuardFails (start cb) (expiry a cb)
  | .heartbeat => heartbeatGuardFails (start cb) (expiry a cb)

/-- heartbeat only: deadline of the inactivity claim. -/
def claimEnd (cb : Nat) : Nat := heartbeatClaimEnd (start cb) (expiry .heartbeat cb)

/-- broadcast timeout and check delay in seconds (transaction actions). -/
def bcastSeconds : Action → Nat
  | .depositSweep => depositSweepBroadcastTimeoutSeconds
  | .redemption => redemptionBroadcastTimeoutSeconds
  | .movingFunds => movingFundsBroadcastTimeoutSeconds
  | .movedFundsSweep => movedFundsSweepBroadcastTimeoutSeconds
  | .heartbeat => 0

def compiledBcastSeconds : Action → Nat
  | .depositSweep => depositSweepCompiledBroadcastTimeoutSeconds
  | .redemption => redemptionCompiledBroadcastTimeoutSeconds
  | .movingFunds => movingFundsCompiledBroadcastTimeoutSeconds
  | .movedFundsSweep => movedFundsSweepCompiledBroadcastTimeoutSeconds
  | .heartbeat => 0

def delaySeconds : Action → Nat
  | .depositSweep => depositSweepBroadcastCheckDelaySeconds
  | .redemption => redemptionBroadcastCheckDelaySeconds
  | .movingFunds => movingFundsBroadcastCheckDelaySeconds
  | .movedFundsSweep => movedFundsSweepBroadcastCheckDelaySeconds
  | .heartbeat => 0

/-- nominal host-chain block time (the property's premise). -/
def blockSeconds : Nat := 12

/-- one complete signing retry loop of a single message: `signingExecutor.sign`'s
`loopTimeoutBlock - startBlock`. -/
def oneLoop : Nat := signingLoopTimeout 0

/-! ## heartbeat rounds (`heartbeatAction.execute` with one failure counter) -/

structure HbOut where
  signs : Nat := 0
  claims : Nat := 0
  errors : Nat := 0
  counter : Nat := 0

def hbRound (active inactive : Nat) (o : HbOut) : HbOut :=
  let o := { o with signs := o.signs + 1 }
  if active ≥ heartbeatSigningMinimumActiveMembers then { o with counter := 0 }
  else
    let c := o.counter + 1
    if c < heartbeatConsecutiveFailureThreshold then { o with counter := c }
    else if inactive = 0 then { o with counter := c, errors := o.errors + 1 }
    else { o with counter := c, claims := o.claims + 1 }

def hbRun (active inactive rounds : Nat) : HbOut :=
  (List.range rounds).foldl (fun o _ => hbRound active inactive o) {}

/-! ## Monitor: the property on the deadlines the implementation used -/

/-- a transaction action observed with these blocks. -/
def holdsTx (a : Action) (s obsExpiry obsSignStart obsSignEnd obsMargin obsBcast obsDelay : Nat) : Bool :=
  decide (obsExpiry = s + validityConst a) &&
  decide (s ≤ obsSignStart) &&
  decide (obsSignEnd + margin a ≤ obsExpiry) &&
  decide (obsSignStart + oneLoop ≤ obsSignEnd) &&
  decide (obsMargin = margin a) &&
  decide (obsBcast + obsDelay ≤ margin a * blockSeconds)

/-- heartbeat: sign starts, and all context deadlines, against the window. -/
def holdsHb (s obsExpiry : Nat) (signStarts deadlines : List Nat) : Bool :=
  decide (obsExpiry = s + validityConst .heartbeat) &&
  signStarts.all (fun x => decide (s ≤ x)) &&
  deadlines.all (fun d => decide (d ≤ obsExpiry) && signStarts.all (fun x => decide (x + oneLoop ≤ d))) &&
  -- every deadline is either a signing deadline (claim reserve left) or a claim deadline (margin left)
  deadlines.all (fun d => decide (d + margin .heartbeat ≤ obsExpiry) ||
    (decide (d + heartbeatTimeoutSafetyMarginBlocks ≤ obsExpiry) &&
     decide (obsExpiry ≤ d + margin .heartbeat)))

end KeepVerif.C46
