/-!
# C45 model: `generator.Scheduler` + `ProtocolLatch` (pkg/generator/scheduler.go, latch.go)

Small-step model. Every atomic step is what one mutex makes indivisible:

* `lock i` / `unlock i`   — `ProtocolLatch.Lock/Unlock` (latch mutex); `unlock` at zero panics;
* `chk`                   — one step of `checkProtocols`, which runs under `protocolsMutex`
                            (at most one check is in progress, the others wait):
                            begin → read latch 0 (`IsExecuting`, latch RLock) → read latch 1 → …
                            → `stop()` or `resume()` (under `workMutex`);
* `compute`               — `Scheduler.compute` (under `workMutex`).

`stops` is the scheduler's slice of cancel functions (as context ids); `live` is the ghost set of
contexts created and not cancelled — a worker goroutine runs iterations only while its context is
live (`select { case <-ctx.Done(): return; default: workerFn(ctx) }`).
-/
namespace KeepVerif.C45

inductive Chk where
  | idle
  | reading (pc : Nat)
  | decided (stop : Bool)
  deriving DecidableEq, Repr

structure St where
  counters : List Nat
  working : Bool := true
  workers : Nat := 0
  stops : List Nat := []
  live : List Nat := []
  nextCtx : Nat := 0
  chk : Chk := .idle
  panics : Nat := 0
  deriving DecidableEq, Repr

def init (nproto : Nat) : St := { counters := List.replicate nproto 0 }

inductive Step where
  | lock (i : Nat) | unlock (i : Nat) | chk | compute
  deriving DecidableEq, Repr

/-- `startWorker`: a fresh context, its cancel function appended to `stops`. -/
def startWorker (s : St) : St :=
  { s with stops := s.stops ++ [s.nextCtx], live := s.live ++ [s.nextCtx], nextCtx := s.nextCtx + 1 }

def startWorkers : Nat → St → St
  | 0, s => s
  | k + 1, s => startWorkers k (startWorker s)

/-- `Scheduler.stop` -/
def doStop (s : St) : St :=
  if s.working then
    { s with working := false, live := s.live.filter (fun c => !s.stops.contains c), stops := [] }
  else s

/-- `Scheduler.resume` -/
def doResume (s : St) : St :=
  if s.working then s else startWorkers s.workers { s with working := true }

def chkStep (s : St) : St :=
  match s.chk with
  | .idle => if s.counters.length = 0 then s else { s with chk := .reading 0 }
  | .reading pc =>
    if s.counters.getD pc 0 ≠ 0 then { s with chk := .decided true }
    else if pc + 1 < s.counters.length then { s with chk := .reading (pc + 1) }
    else { s with chk := .decided false }
  | .decided true => { doStop s with chk := .idle }
  | .decided false => { doResume s with chk := .idle }

def step (s : St) : Step → St
  | .lock i => { s with counters := s.counters.modify i (· + 1) }
  | .unlock i =>
    if s.counters.getD i 0 = 0 then { s with panics := s.panics + 1 }
    else { s with counters := s.counters.modify i (· - 1) }
  | .chk => chkStep s
  | .compute =>
    let s1 := { s with workers := s.workers + 1 }
    if s.working then startWorker s1 else s1

def runSteps (s : St) (steps : List Step) : St := steps.foldl step s

/-! ## what the harness observes at a quiescent point -/

structure View where
  working : Bool
  stops : Nat
  active : Nat
  flags : List Bool
  panics : Nat
  deriving DecidableEq, Repr

def view (s : St) : View :=
  { working := s.working, stops := s.stops.length, active := s.live.length,
    flags := s.counters.map (· ≠ 0), panics := s.panics }

/-- the property itself on what is observed after a quiescent check (a group that is exactly one
    `checkProtocols` call with nothing concurrent): with `np` registered protocols and `workers`
    registered workers, the scheduler works iff no latch is executing; stopped ⇒ no worker runs
    and no cancel function is kept; working ⇒ exactly one running worker per registered worker. -/
def quiescentCheckOk (np workers : Nat) (v : View) : Bool :=
  (np = 0 || (v.working == !v.flags.any id)) &&
  (v.working || (v.active == 0 && v.stops == 0)) &&
  (!v.working || (v.active == workers && v.stops == workers))

/-- what the scheduler invariant says about every quiescent observation: a stopped scheduler has
    no running worker and keeps no cancel function; the running workers are exactly the kept
    cancel functions. -/
def viewInvOk (v : View) : Bool :=
  (v.working || (v.active == 0 && v.stops == 0)) && v.active == v.stops

/-- check steps until no check is in flight (at least one step). -/
def finishChk : Nat → St → St
  | 0, s => s
  | k + 1, s =>
    let s' := chkStep s
    if s'.chk = .idle then s' else finishChk k s'

/-- check steps until the check is about to poll the last protocol, or has finished. -/
def chkToLastPoll : Nat → St → St
  | 0, s => s
  | k + 1, s =>
    let s' := chkStep s
    if s'.chk = .idle ∨ s'.chk = .reading (s.counters.length - 1) then s' else chkToLastPoll k s'

/-- the `O` scenario under `protocolsMutex`: check A runs up to its poll of the last protocol,
    latch 0 is locked, A completes, then check B runs (it had to wait for A). -/
def overlapRun (s : St) : St :=
  let fuel := s.counters.length + 3
  let s1 := chkToLastPoll fuel s
  let s2 := step s1 (.lock 0)
  let s3 := if s2.chk = .idle then s2 else finishChk fuel s2
  finishChk fuel s3

/-! ## concurrent groups: every interleaving of the atomic steps -/

inductive Act where
  | lock (i : Nat) | unlock (i : Nat) | check | compute
  deriving DecidableEq, Repr

def Act.single? : Act → Option Step
  | .lock i => some (.lock i)
  | .unlock i => some (.unlock i)
  | .compute => some .compute
  | .check => none

/-- remove the element at position `i`. -/
def removeAt : List α → Nat → List α
  | [], _ => []
  | _ :: r, 0 => r
  | a :: r, i + 1 => a :: removeAt r i

/-- all final states of running the single-step actions `singles` (each once, any order) and
    `k` more `checkProtocols` calls concurrently. `fuel` bounds the depth. -/
def explore : Nat → St → List Step → Nat → List St
  | 0, _, _, _ => []
  | fuel + 1, s, singles, k =>
    let viaSingles := (List.range singles.length).flatMap fun i =>
      match singles[i]? with
      | some st => explore fuel (step s st) (removeAt singles i) k
      | none => []
    let viaChk :=
      if s.chk ≠ .idle then explore fuel (chkStep s) singles k
      else if k > 0 then
        (if s.counters.length = 0 then explore fuel s singles (k - 1)
         else explore fuel (chkStep s) singles (k - 1))
      else []
    let done := if singles.isEmpty && s.chk = .idle && k = 0 then [s] else []
    done ++ viaSingles ++ viaChk

def groupFuel (s : St) (acts : List Act) : Nat := (acts.length + 1) * (s.counters.length + 3) + 1

/-- outcomes of one group of concurrent actions started from a quiescent state. -/
def groupOutcomes (s : St) (acts : List Act) : List St :=
  let singles := acts.filterMap Act.single?
  let k := (acts.filter (· = .check)).length
  (explore (groupFuel s acts) s singles k).eraseDups

/-- the `W` probe: every live worker does one iteration. -/
def workOnce (s : St) : Nat := s.live.length

end KeepVerif.C45
