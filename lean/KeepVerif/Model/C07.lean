/-!
# C07 model: tECDSA DKG around tss-lib (pkg/tecdsa/dkg, pkg/tecdsa/common, pkg/protocol/group)

* `Group` — `group.Group` (size, DQ list, IA list) with `IsOperating`, `MarkMemberAsDisqualified`,
  `OperatingMemberIndexes`; `exclude` is the loop of `Executor.Execute` (skips the member itself).
* `toKey` / `toIndex` — `identityConverter` (`seed + idx`; inverse with the `seed > key ⇒ 0`
  guard and the `Int64 → uint8` truncation).
* `partyKeys` / `isort` — `GenerateTssPartiesIDs` over the operating set followed by
  `tss.SortPartyIDs` (ascending by key).
* `misbehaved` — `Result.MisbehavedMembersIndexes` (sorted union of IA and DQ).
* `Msg`, `validMembership`, `shouldAccept`, `receive`, `received`, `canTransition`, `run` — the
  asynchronous protocol states (`states.go`): every state's `Receive` is the same admission test
  followed by `ReceiveToHistory`; `receivedMessages[T]` is a type filter plus first-per-sender
  de-duplication; `Next` only advances the state index (the history is shared).

Member indexes are `uint8` in Go; here they are `Nat` with explicit `% 256` where Go wraps.
tss-lib itself is not modelled (assumption A-tss, a parameter of the theorems).
-/
namespace KeepVerif.C07

/-! ## group.Group -/

structure Group where
  size : Nat
  dq : List Nat
  ia : List Nat
deriving Repr, DecidableEq

/-- `group.NewGroup(_, size)` -/
def Group.new (n : Nat) : Group := ⟨n, [], []⟩

/-- `isInGroup`: member indexes are `1..size`. -/
def Group.inGroup (g : Group) (m : Nat) : Bool := decide (1 ≤ m) && decide (m ≤ g.size)

/-- `IsOperating` -/
def Group.isOperating (g : Group) (m : Nat) : Bool :=
  g.inGroup m && !g.ia.contains m && !g.dq.contains m

/-- `MarkMemberAsDisqualified` -/
def Group.markDQ (g : Group) (m : Nat) : Group :=
  if g.isOperating m then { g with dq := g.dq ++ [m] } else g

/-- `OperatingMemberIndexes` -/
def Group.operating (g : Group) : List Nat :=
  (List.range' 1 g.size).filter g.isOperating

/-- The exclusion loop of `Executor.Execute` (and `signing.Execute`): every excluded index other
    than the member's own is marked as disqualified. -/
def exclude (self : Nat) (excl : List Nat) (g : Group) : Group :=
  excl.foldl (fun g e => if e ≠ self then g.markDQ e else g) g

/-- A member's group right after `Execute` set it up. -/
def memberGroup (n self : Nat) (excl : List Nat) : Group := exclude self excl (Group.new n)

/-- `Result.MisbehavedMembersIndexes`: sorted, duplicate-free union of IA and DQ (`uint8` keys). -/
def misbehaved (g : Group) : List Nat :=
  (List.range 256).filter (fun m => g.ia.contains m || g.dq.contains m)

/-! ## identityConverter -/

/-- `MemberIndexToTssPartyIDKey` -/
def toKey (seed idx : Nat) : Nat := seed + idx

/-- `TssPartyIDToMemberIndex` -/
def toIndex (seed key : Nat) : Nat := if seed > key then 0 else (key - seed) % 256

/-! ## party set -/

def insertSorted (a : Nat) : List Nat → List Nat
  | [] => [a]
  | b :: bs => if a ≤ b then a :: b :: bs else b :: insertSorted a bs

/-- ascending sort (what `tss.SortPartyIDs` does with the party keys) -/
def isort : List Nat → List Nat
  | [] => []
  | a :: as => insertSorted a (isort as)

/-- keys handed to `tss.NewPeerContext(tss.SortPartyIDs(…))` by `initializeTssRoundOne` -/
def partyKeys (seed : Nat) (g : Group) : List Nat := isort (g.operating.map (toKey seed))

/-- the member's own party key (`nil` party ID when the member is not operating) -/
def ownKey (seed self : Nat) (g : Group) : Option Nat :=
  if g.operating.contains self then some (toKey seed self) else none

/-! ## messages, admission, history -/

/-- A network message as the states see it. `kind < 6`: a payload implementing the package's
    `message` interface (0 ephemeral key, 1–3 tss rounds, 4 finalization, 5 result signature);
    any other kind is a foreign payload. `op` identifies the operator whose (network-authenticated)
    public key the message carries, `sess` the session id, `seq` the message's identity. -/
structure Msg where
  kind : Nat
  sender : Nat
  op : Nat
  sess : Nat
  seq : Nat
deriving Repr, DecidableEq

/-- `MembershipValidator.IsValidMembership(sender, key of op)` for the seat list `seats`
    (`seats[i]` = operator of member `i+1`); `int(memberID - 1)` wraps in `uint8`. -/
def validMembership (seats : List Nat) (sender op : Nat) : Bool :=
  seats[(sender + 255) % 256]? == some op

/-- `member.shouldAcceptMessage` -/
def shouldAccept (self : Nat) (g : Group) (seats : List Nat) (sender op : Nat) : Bool :=
  !(sender == self) && validMembership seats sender op && g.isOperating sender

/-- the admission test shared by every state's `Receive` -/
def admitted (self sess : Nat) (g : Group) (seats : List Nat) (m : Msg) : Bool :=
  decide (m.kind < 6) && shouldAccept self g seats m.sender m.op && (sess == m.sess)

/-- `Receive` of any DKG state: admitted messages are appended to the shared history. -/
def receive (self sess : Nat) (g : Group) (seats : List Nat) (h : List Msg) (m : Msg) : List Msg :=
  if admitted self sess g seats m then h ++ [m] else h

/-- `DeduplicateMessagesPayloads` keyed by sender: first message per sender, order kept. -/
def dedupFrom (seen : List Nat) : List Msg → List Msg
  | [] => []
  | m :: ms => if seen.contains m.sender then dedupFrom seen ms else m :: dedupFrom (m.sender :: seen) ms

/-- `receivedMessages[T]` for the message kind `k` -/
def received (h : List Msg) (k : Nat) : List Msg := dedupFrom [] (h.filter (fun m => m.kind == k))

/-- message kind awaited by protocol state `st` (0 ephemeral, 1 symmetric (none), 2–4 tss rounds,
    5 finalization) -/
def kindOf : Nat → Option Nat
  | 0 => some 0
  | 2 => some 1
  | 3 => some 2
  | 4 => some 3
  | 5 => some 4
  | _ => none

/-- `CanTransition` of state `st` -/
def canTransition (st : Nat) (g : Group) (h : List Msg) : Bool :=
  match kindOf st with
  | some k => (received h k).length + 1 == g.operating.length
  | none => true

/-- what the asynchronous machine does to a state: deliver a message or move to `Next()` -/
inductive Ev where
  | recv (m : Msg)
  | next
deriving Repr

structure St where
  idx : Nat
  hist : List Msg
deriving Repr

def lastState : Nat := 5

def step (self sess : Nat) (g : Group) (seats : List Nat) (s : St) : Ev → St
  | .recv m => { s with hist := receive self sess g seats s.hist m }
  | .next => if s.idx < lastState then { s with idx := s.idx + 1 } else s

def run (self sess : Nat) (g : Group) (seats : List Nat) (evs : List Ev) : St :=
  evs.foldl (step self sess g seats) ⟨0, []⟩

/-! ## monitor: the property as a predicate on what the implementation reported -/

def isStrictAsc : List Nat → Bool
  | a :: b :: rest => decide (a < b) && isStrictAsc (b :: rest)
  | _ => true

/-- `parties` observation: operating list, sorted keys, own key, misbehaved list, round trip. -/
def holdsParties (n self : Nat) (excl : List Nat) (seed : Nat)
    (operating keys : List Nat) (own : Option Nat) (mis rt : List Nat) : Bool :=
  -- operating = group minus the excluded others, ascending
  operating == (List.range' 1 n).filter (fun m => m == self || !excl.contains m)
  -- party keys are seed + member, ascending, one per operating member
  && keys == operating.map (seed + ·) && isStrictAsc keys
  && own == (if operating.contains self then some (seed + self) else none)
  -- excluded others are exactly the misbehaved ones
  && mis == (List.range' 1 n).filter (fun m => !(m == self) && excl.contains m)
  && rt == operating

def nodupB : List Nat → Bool
  | [] => true
  | a :: as => !as.contains a && nodupB as

/-- `recv` observation: every message the implementation reports in a `receivedMessages[T]` list
    is a delivered message of that type that passes the admission test (valid membership of the
    claimed sender, operating, not self, own session), senders are distinct, and `CanTransition`
    holds exactly when the list of the awaited type has one message per other operating member.
    `lists k` = (sender, seq) pairs; `seq` = position of the delivery in the event list. -/
def holdsRecv (self sess : Nat) (g : Group) (seats : List Nat) (evs : List Ev) (st : Nat) (can : Bool)
    (lists : List (List (Nat × Nat))) : Bool :=
  ((List.range lists.length).all fun k =>
    let l := lists.getD k []
    l.all (fun (p : Nat × Nat) =>
      match evs[p.2]? with
      | some (.recv m) => m.sender == p.1 && m.kind == k && admitted self sess g seats m
      | _ => false)
    && nodupB (l.map (·.1)))
  && (match kindOf st with
      | some k => can == ((lists.getD k []).length + 1 == g.operating.length)
      | none => can)

/-! ## result publication (`Publish`: `resultSigningState`) -/

/-- A message as `resultSigningState.Receive` sees it: `kind` as in `Msg` (only 5, the
    `resultSignatureMessage`, is considered), `sigOp` = operator whose public key is embedded in the
    signature message (must equal the network-authenticated key `op`). -/
structure PMsg where
  kind : Nat
  sender : Nat
  op : Nat
  sess : Nat
  sigOp : Nat
  seq : Nat
deriving Repr, DecidableEq

def PMsg.toMsg (m : PMsg) : Msg := ⟨m.kind, m.sender, m.op, m.sess, m.seq⟩

/-- admission test of `resultSigningState.Receive` (`signingMember.shouldAcceptMessage`,
    `isValidKeyUsed`, session) -/
def admittedPub (self sess : Nat) (g : Group) (seats : List Nat) (m : PMsg) : Bool :=
  (m.kind == 5) && shouldAccept self g seats m.sender m.op && (m.sigOp == m.op) && (sess == m.sess)

def receivePub (self sess : Nat) (g : Group) (seats : List Nat) (h : List PMsg) (m : PMsg) : List PMsg :=
  if admittedPub self sess g seats m then h ++ [m] else h

def runPub (self sess : Nat) (g : Group) (seats : List Nat) (ms : List PMsg) : List PMsg :=
  ms.foldl (receivePub self sess g seats) []

/-- `receivedMessages[*resultSignatureMessage]` -/
def receivedPub (h : List PMsg) : List Msg := received (h.map PMsg.toMsg) 5

/-- `resultSigningState.CanTransition` -/
def canTransitionPub (g : Group) (h : List PMsg) : Bool :=
  (receivedPub h).length + 1 == g.operating.length

/-- group of a DKG result: the given members are disqualified -/
def groupWithDQ (n : Nat) (dq : List Nat) : Group := dq.foldl Group.markDQ (Group.new n)

/-- `pub` observation: only admitted signature messages, one per sender, CanTransition exact. -/
def holdsPub (self sess : Nat) (g : Group) (seats : List Nat) (ms : List PMsg) (can : Bool)
    (l : List (Nat × Nat)) : Bool :=
  l.all (fun (p : Nat × Nat) =>
    match ms[p.2]? with
    | some m => m.sender == p.1 && admittedPub self sess g seats m
    | none => false)
  && nodupB (l.map (·.1))
  && (can == (l.length + 1 == g.operating.length))

/-! ## monitors of the real-run ops (`run`, `exec`) -/

/-- members that are not excluded (what every one of them must compute as the operating set) -/
def opOf (n : Nat) (excl : List Nat) : List Nat := (List.range' 1 n).filter (fun m => !excl.contains m)

/-- the excluded members of the group, ascending (the expected misbehaved list) -/
def misOf (n : Nat) (excl : List Nat) : List Nat := (List.range' 1 n).filter (fun m => excl.contains m)

/-- observation of a real DKG run: members that finished with a result, whether their wallet keys
    are all equal, their common misbehaved list (`none`: they differ), whether every share stores
    exactly the party keys `seed + m` of the operating members and its own share id, and the
    excluded members that nevertheless finished with a result. -/
structure RunObs where
  okm : List Nat
  agree : Bool
  mis : Option (List Nat)
  ks : Bool
  exjoin : List Nat
deriving Repr

/-- `run` monitor: no excluded member joined; the members that finished agree on the key and
    report exactly the excluded members as misbehaved; the stored party keys are the identities;
    when the exclusion leaves the honest threshold (and at least two members), exactly the
    non-excluded members finish. -/
def holdsRun (n t : Nat) (excl : List Nat) (o : RunObs) : Bool :=
  o.exjoin.isEmpty
  && (o.okm.isEmpty || o.agree)
  && (o.okm.isEmpty || o.mis == some (misOf n excl))
  && o.ks
  && (!(decide (t ≤ (opOf n excl).length) && decide (2 ≤ (opOf n excl).length)) || o.okm == opOf n excl)

def allEq {α} [BEq α] : List α → Bool
  | [] => true
  | a :: as => as.all (· == a)

/-- a running member's view: its index and the operating set it hands to tss-lib -/
def viewOf (n : Nat) (excl : List Nat) (i : Nat) : Nat × List Nat := (i, (memberGroup n i excl).operating)

/-- A-tss (completion): a party finishes key generation exactly when its party set has at least the
    honest threshold of members and every member of that set runs with the SAME set (the round
    messages of a party are only consumed by parties that admit it — `history_only_admitted` — and a
    party waits for one message of each other party of its set — `canTransition_complete`). -/
def completes (t : Nat) (views : List (Nat × List Nat)) (v : Nat × List Nat) : Bool :=
  decide (t ≤ v.2.length) && v.2.all fun p => views.any fun w => w.1 == p && w.2 == v.2

/-- `exec` op: what is delivered to the real `Execute` — the genuine first message of every member
    other than `self` that is not excluded (seat `m` is operator `m`, session 1) -/
def execEvents (n self : Nat) (excl : List Nat) : List Ev :=
  ((List.range' 1 n).filter (fun m => !(m == self) && !excl.contains m)).map
    fun m => Ev.recv ⟨0, m, m, 1, m⟩

/-- … and whether a member whose group is `g` then leaves the first state -/
def execReached (n self : Nat) (excl : List Nat) (g : Group) : Bool :=
  canTransition 0 g (run self 1 g (List.range' 1 n) (execEvents n self excl)).hist

/-- `exec` monitor: the member reached the initialization of TSS round one -/
def holdsExec (reached : Bool) : Bool := reached

end KeepVerif.C07
