import KeepVerif.Gen.C06
/-!
# C06 model: `Deduplicator.NotifyRelayEntryStarted` (pkg/beacon/event/deduplicator.go)

State = (`currentRequestStartBlock`, `currentRequestPreviousEntry`).  The chain is consulted only
in the "newer block, same previous entry" branch; its two answers come with the notification
(`none` = the call returned an error).  `chainBlk` is the value after `big.Int.Uint64()`.
The whole method runs under `relayEntryMutex` (generated fact), so a concurrent execution is a
sequential run in the order in which the calls took the mutex.
-/
namespace KeepVerif.C06

structure St where
  cur : Nat
  prev : String
  deriving DecidableEq, Repr

def init : St := ⟨0, ""⟩

structure Notif where
  blk : Nat
  prev : String
  chainPrev : Option String   -- hex text of `CurrentRequestPreviousEntry()`
  chainBlk : Option Nat       -- `CurrentRequestStartBlock().Uint64()`
  deriving DecidableEq, Repr

/-- A = (true, nil), R = (false, nil), P / B = error of the first / second chain call -/
inductive Out | A | R | P | B
  deriving DecidableEq, Repr

/-- the `shouldUpdate` closure -/
def judge (st : St) (n : Notif) : Out :=
  if st.cur = 0 then .A
  else if n.blk > st.cur then
    if n.prev = st.prev then
      match n.chainPrev with
      | none => .P
      | some cp =>
        match n.chainBlk with
        | none => .B
        | some cb => if n.prev = cp ∧ n.blk = cb then .A else .R
    else .A
  else .R

def step (st : St) (n : Notif) : St × Out :=
  match judge st n with
  | .A => (⟨n.blk, n.prev⟩, .A)
  | o => (st, o)

def runFrom : St → List Notif → List Out
  | _, [] => []
  | st, n :: ns => (step st n).2 :: runFrom (step st n).1 ns

def finalFrom : St → List Notif → St
  | st, [] => st
  | st, n :: ns => finalFrom (step st n).1 ns

def run (ns : List Notif) : List Out := runFrom init ns

/-- start blocks of the notifications the node started signing for -/
def acceptedFrom : St → List Notif → List Nat
  | _, [] => []
  | st, n :: ns =>
    match (step st n).2 with
    | .A => n.blk :: acceptedFrom (step st n).1 ns
    | _ => acceptedFrom (step st n).1 ns

def accepted (ns : List Notif) : List Nat := acceptedFrom init ns

/-! ## Monitor: the property restated over what the implementation answered.
`last` is the last request the implementation itself accepted. -/

def expected (last : Option (Nat × String)) (n : Notif) : Out :=
  match last with
  | none => .A
  | some (lb, lp) =>
    if n.blk > lb then
      if n.prev ≠ lp then .A   -- genuinely new request: always processed
      else match n.chainPrev, n.chainBlk with   -- reused entry: only if the chain confirms
        | none, _ => .P
        | some _, none => .B
        | some cp, some cb => if n.prev = cp ∧ n.blk = cb then .A else .R
    else .R                     -- duplicate / older: never

def holdsFrom (last : Option (Nat × String)) : List Notif → List Out → Bool
  | [], [] => true
  | n :: ns, o :: os =>
    decide (o = expected last n) && holdsFrom (if o = .A then some (n.blk, n.prev) else last) ns os
  | _, _ => false

/-- sequential monitor (domain: start blocks ≥ 1) -/
def holds (ns : List Notif) (outs : List Out) : Bool := holdsFrom none ns outs

def inDomain (ns : List Notif) : Bool := ns.all (fun n => decide (1 ≤ n.blk))

/-- all ways to pick an order of a list -/
def perms {α} : List α → List (List α)
  | [] => [[]]
  | x :: xs => (perms xs).flatMap (fun p => (List.range (p.length + 1)).map (fun i => p.take i ++ x :: p.drop i))

/-- concurrent monitor: the answers equal a sequential run in *some* order of the calls. -/
def holdsConc (st : St) (calls : List (Notif × Out)) : Bool :=
  (perms calls).any (fun p => decide (runFrom st (p.map (·.1)) = p.map (·.2)))

end KeepVerif.C06
