/-!
# C42 model: `pkg/sortition` — `MonitorPool`, `checkOperatorStatus`, `checkRewardsEligibility`,
the join policies of `policy.go`.

Every chain query answers `t`, `f` or `e` (error).  One `Tick` is the chain state seen by one
status check.  The output of a check is the ordered list of chain calls it made (queries and
the three transactions) plus whether `checkOperatorStatus` returned an error.  The code keeps no
state between checks, so a history is a list of ticks and the monitor is a `map`.
-/
namespace KeepVerif.C42

inductive Ans | t | f | e
  deriving DecidableEq, Repr

structure Tick where
  inPool : Ans
  upToDate : Ans
  eligible : Ans
  canRestore : Ans
  restoreTx : Ans
  locked : Ans
  chaosnet : Ans
  beta : Ans
  updateTx : Ans
  joinTx : Ans
  deriving DecidableEq, Repr

/-- chain calls; `const` = an external `JoinPolicy` was asked. -/
inductive Call
  | inPool | upToDate | eligible | canRestore | locked | chaosnet | beta | const
  | restore | update | join
  deriving DecidableEq, Repr

def Call.isTx : Call → Bool
  | .restore | .update | .join => true
  | _ => false

/-- `JoinPolicy` values.  `ConjunctionPolicy{p₁,…,pₙ}` is `cons p₁ (… (cons pₙ nil))`. -/
inductive Policy
  | uncond
  | beta
  | const (b : Bool)
  | nil
  | cons (head tail : Policy)
  deriving Repr

/-- `ShouldJoin()` : result and the chain calls made. -/
def evalPolicy (tk : Tick) : Policy → Bool × List Call
  | .uncond => (true, [])
  | .const b => (b, [.const])
  | .beta =>
    match tk.chaosnet with
    | .e => (false, [.chaosnet])
    | .f => (true, [.chaosnet])
    | .t =>
      match tk.beta with
      | .e => (false, [.chaosnet, .beta])
      | .t => (true, [.chaosnet, .beta])
      | .f => (false, [.chaosnet, .beta])
  | .nil => (true, [])
  | .cons h t =>
    let r := evalPolicy tk h
    if r.1 then
      let r2 := evalPolicy tk t
      (r2.1, r.2 ++ r2.2)
    else (false, r.2)

/-- `checkRewardsEligibility`: calls and "returned an error". -/
def checkRewards (tk : Tick) : List Call × Bool :=
  match tk.eligible with
  | .e => ([.eligible], true)
  | .t => ([.eligible], false)
  | .f =>
    match tk.canRestore with
    | .e => ([.eligible, .canRestore], true)
    | .f => ([.eligible, .canRestore], false)
    | .t => ([.eligible, .canRestore, .restore], decide (tk.restoreTx = .e))

/-- `checkOperatorStatus`: calls and "returned an error". -/
def check (p : Policy) (tk : Tick) : List Call × Bool :=
  match tk.inPool with
  | .e => ([.inPool], true)
  | inPool =>
    match tk.upToDate with
    | .e => ([.inPool, .upToDate], true)
    | utd =>
      let pre := [Call.inPool, Call.upToDate] ++ (if inPool = .t then (checkRewards tk).1 else [])
      if utd = .t then (pre, false) else
      match tk.locked with
      | .e => (pre ++ [.locked], true)
      | .t => (pre ++ [.locked], false)
      | .f =>
        if inPool = .t then (pre ++ [.locked, .update], false)
        else
          let r := evalPolicy tk p
          (pre ++ [.locked] ++ r.2 ++ (if r.1 then [.join] else []), false)

inductive MonResult | ok | errResolve | errUnknown
  deriving DecidableEq, Repr

/-- `MonitorPool`: `reg` is the `OperatorToStakingProvider` answer; one check synchronously and
one per ticker tick, each seeing the next chain state. -/
def monitorPool (reg : Ans) (p : Policy) (ticks : List Tick) : MonResult × List (List Call) :=
  match reg with
  | .e => (.errResolve, [])
  | .f => (.errUnknown, [])
  | .t => (.ok, ticks.map (fun tk => (check p tk).1))

/-! ## Monitor: the property on what the implementation did (safety: "only when"). -/

/-- the documented meaning of a policy on a chain state (no call order). -/
def policyAllows (tk : Tick) (p : Policy) : Bool := (evalPolicy tk p).1

def count (c : Call) (tr : List Call) : Nat := (tr.filter (· = c)).length

/-- one observed check `tr` against the chain state `tk` it ran on. -/
def holdsTick (p : Policy) (tk : Tick) (tr : List Call) : Bool :=
  (!tr.contains .join ||
    (decide (tk.inPool = .f) && decide (tk.upToDate = .f) && decide (tk.locked = .f)
      && policyAllows tk p)) &&
  (!tr.contains .update ||
    (decide (tk.inPool = .t) && decide (tk.upToDate = .f) && decide (tk.locked = .f))) &&
  (!tr.contains .restore ||
    (decide (tk.inPool = .t) && decide (tk.eligible = .f) && decide (tk.canRestore = .t))) &&
  decide (count .join tr ≤ 1) && decide (count .update tr ≤ 1) && decide (count .restore tr ≤ 1)

def holdsAll (p : Policy) : List Tick → List (List Call) → Bool
  | [], [] => true
  | tk :: tks, tr :: trs => holdsTick p tk tr && holdsAll p tks trs
  | _, _ => false

/-- the whole `MonitorPool` observation. -/
def holds (reg : Ans) (p : Policy) (ticks : List Tick) (res : MonResult) (trs : List (List Call)) : Bool :=
  if reg = .t ∧ res = .ok then holdsAll p ticks trs
  else decide (reg ≠ .t) && decide (res ≠ .ok) && trs.isEmpty

end KeepVerif.C42
