import KeepVerif.Model.C07
/-!
# C08 model: final signing group, signing identity conversion, signature extraction

* `finalSigningGroup` — `pkg/tbtc/dkg.go finalSigningGroup`: parameter check, ascending sort of the
  operating member indexes, final operators `selected[m-1]`, final index `position + 1`.
  (Go builds a map; for a duplicate-free input — `OperatingMemberIndexes` is strictly ascending,
  `C07.operating_sorted` — the value stored for `m` is the position of `m` in the sorted list.)
* `sKey` / `sIndex` — `pkg/tecdsa/signing identityConverter` (`keys[idx-1]`, `IndexFunc + 1`).
* `storedKeys` — what tss-lib keeps in `LocalPartySaveData.Ks` after a DKG over `operating`:
  the DKG party keys `seed + m` in `tss.SortPartyIDs` (ascending) order.
* `signingParties` — the party keys a signing member derives for the included members
  (`GenerateTssPartiesIDs` over its operating set with the signing converter).
* `newSignature` — `tecdsa.NewSignature`.
-/
namespace KeepVerif.C08
open KeepVerif.C07

/-- position-based final index of DKG member `m` -/
def finalIndex (operating : List Nat) (m : Nat) : Nat := (isort operating).idxOf m + 1

/-- `finalSigningGroup(selected, operating, {GroupSize n, GroupQuorum quorum})`:
    `none` = "invalid input parameters". -/
def finalSigningGroup (n quorum : Nat) (sel operating : List Nat) :
    Option (List Nat × List (Nat × Nat)) :=
  if sel.length ≠ n ∨ operating.length < quorum then none
  else
    let s := isort operating
    some (s.map (fun m => sel.getD (m - 1) 0), s.map (fun m => (m, finalIndex operating m)))

/-- signing `MemberIndexToTssPartyIDKey` (Go panics outside `1..len`; callers stay inside) -/
def sKey (keys : List Nat) (idx : Nat) : Nat := keys.getD (idx - 1) 0

/-- signing `TssPartyIDToMemberIndex`: `IndexFunc(...) + 1`, 0 when the key is unknown -/
def sIndex (keys : List Nat) (key : Nat) : Nat :=
  if keys.idxOf key < keys.length then (keys.idxOf key + 1) % 256 else 0

/-- `Ks` stored by tss-lib for a DKG run over `operating` with identity seed `seed` -/
def storedKeys (seed : Nat) (operating : List Nat) : List Nat := isort (operating.map (toKey seed))

/-- party keys a signing member derives for the final member indexes `included` -/
def signingParties (ks : List Nat) (included : List Nat) : List Nat := isort (included.map (sKey ks))

/-! ## signature extraction -/

def natOfBytes (bs : List Nat) : Nat := bs.foldl (fun acc b => acc * 256 + b) 0

structure Signature where
  r : Nat
  s : Nat
  recoveryID : Int
deriving Repr, DecidableEq

/-- `int8(byte)` -/
def int8OfByte (b : Nat) : Int := if b < 128 then (b : Int) else (b : Int) - 256

/-- `tecdsa.NewSignature` (Go panics on an empty recovery slice; tss-lib always sets one byte) -/
def newSignature (r s rec : List Nat) : Signature :=
  ⟨natOfBytes r, natOfBytes s, int8OfByte (rec.headD 0)⟩

/-! ## signing protocol states (`pkg/tecdsa/signing/states.go`) -/

/-- admission test of every signing state's `Receive` (message kinds 0..9) -/
def sAdmitted (self sess : Nat) (g : Group) (seats : List Nat) (m : Msg) : Bool :=
  decide (m.kind < 10) && shouldAccept self g seats m.sender m.op && (sess == m.sess)

/-- index of the finalization state (its `Receive` ignores every message) -/
def sLast : Nat := 11

/-- message kind awaited by signing state `st` (0 ephemeral, 1 symmetric: none, 2..10 rounds 1..9) -/
def sKindOf (st : Nat) : Option Nat :=
  if st = 0 then some 0 else if 2 ≤ st ∧ st ≤ 10 then some (st - 1) else none

def sStep (self sess : Nat) (g : Group) (seats : List Nat) (s : St) : Ev → St
  | .recv m =>
    if s.idx < sLast ∧ sAdmitted self sess g seats m = true then { s with hist := s.hist ++ [m] } else s
  | .next => if s.idx < sLast then { s with idx := s.idx + 1 } else s

def sRun (self sess : Nat) (g : Group) (seats : List Nat) (evs : List Ev) : St :=
  evs.foldl (sStep self sess g seats) ⟨0, []⟩

def sCanTransition (st : Nat) (g : Group) (h : List Msg) : Bool :=
  match sKindOf st with
  | some k => (received h k).length + 1 == g.operating.length
  | none => true

/-- `srecv` observation: as `C07.holdsRecv` for the ten signing message types. -/
def holdsSrecv (self sess : Nat) (g : Group) (seats : List Nat) (evs : List Ev) (st : Nat) (can : Bool)
    (lists : List (List (Nat × Nat))) : Bool :=
  ((List.range lists.length).all fun k =>
    let l := lists.getD k []
    l.all (fun (p : Nat × Nat) =>
      match evs[p.2]? with
      | some (.recv m) => m.sender == p.1 && m.kind == k && sAdmitted self sess g seats m
      | _ => false)
    && nodupB (l.map (·.1)))
  && (match sKindOf st with
      | some k => can == ((lists.getD k []).length + 1 == g.operating.length)
      | none => can)

/-! ## monitor -/

/-- `final` observation `(ops, [(m, f, r, b)])`: the final operators are the selected operators of
    the operating members in ascending order; final indexes are 1..k in that order; the key stored
    at `Ks[f-1]` converts back to DKG member `m` (`r`), and `m`'s DKG key resolves to `f` (`b`). -/
def holdsFinal (sel operating : List Nat) (ops : List Nat) (entries : List (Nat × Nat × Nat × Nat)) : Bool :=
  let ms := entries.map (·.1)
  isStrictAsc ms
  && ms.all operating.contains && operating.all ms.contains
  && entries.map (·.2.1) == List.range' 1 entries.length
  && entries.all (fun e => e.2.2.1 == e.1 && e.2.2.2 == e.2.1)
  && ops == ms.map (fun m => sel.getD (m - 1) 0)

/-! ## monitors of the real-run ops (`sign`, `wsign`) -/

/-- observation of a DKG-then-sign run: the DKG succeeded for every operating member with one key;
    every member's stored final index points at its own key-generation party key in `Ks`; and per
    honest-threshold subset of the final group: all members returned the same signature, it
    verifies under the wallet key, `s` is low and the recovery id is in range. -/
structure SignObs where
  dkgOk : Bool
  ksOk : Bool
  sigs : List Bool
deriving Repr

def holdsSign (o : SignObs) : Bool := o.dkgOk && o.ksOk && o.sigs.all id

/-- observation of a wallet signing through the tbtc signing executor -/
structure WsignObs where
  dkgOk : Bool
  sigOk : Bool
deriving Repr

def holdsWsign (o : WsignObs) : Bool := o.dkgOk && o.sigOk

end KeepVerif.C08
