import KeepVerif.Gen.C40
/-!
# C40 model: DKG results / inactivity claims / wallet ids versus the on-chain rules

Client side (`pkg/chain/ethereum/tbtc.go`, modelled as it is):
`convertPubKeyToChainFormat`, `convertSignaturesToChainFormat`, `computeOperatorsIDsHash`,
`AssembleDKGResult`, `CalculateDKGResultSignatureHash`, `NewClaimPreimage` (pkg/protocol/inactivity),
`CalculateInactivityClaimHash`, `AssembleInactivityClaim`, `calculateWalletID`.

Contract side (hand model of the Solidity text, tied textually by `Gen/C40.lean`):
`EcdsaDkgValidator.validateFields / validateMembersHash / validateSignatures`,
`EcdsaInactivity.verifyClaim` (static part + signed message) and `validateMembersIndices`,
`Wallets.addWallet` (wallet id).

`abi.encode` (Solidity) and `abi.Arguments.Pack` (go-ethereum) are one function `encode` here,
type directed; the *type lists* of both sides come from the generated facts.
The hash (keccak256) is a parameter `H` everywhere.
-/
namespace KeepVerif.C40

abbrev Bytes := List UInt8

/-! ## ABI encoding -/

/-- big endian, exactly `n` bytes, of `v mod 256^n` -/
def beBytes : Nat → Nat → Bytes
  | 0, _ => []
  | n + 1, v => beBytes n (v / 256) ++ [UInt8.ofNat (v % 256)]

/-- one 32-byte ABI word -/
def word (v : Nat) : Bytes := beBytes 32 v

def padRight32 (bs : Bytes) : Bytes := bs ++ List.replicate ((32 - bs.length % 32) % 32) 0

inductive Ty where
  | uint (bits : Nat)
  | bool
  | bytes32
  | address
  | bytes
  | uintArr (bits : Nat)
deriving DecidableEq, Repr

def Ty.parse : String → Option Ty
  | "uint256" => some (.uint 256)
  | "uint32" => some (.uint 32)
  | "uint8" => some (.uint 8)
  | "bool" => some .bool
  | "bytes32" => some .bytes32
  | "address" => some .address
  | "bytes" => some .bytes
  | "uint256[]" => some (.uintArr 256)
  | "uint32[]" => some (.uintArr 32)
  | "uint8[]" => some (.uintArr 8)
  | _ => none

def Ty.isDynamic : Ty → Bool
  | .bytes | .uintArr _ => true
  | _ => false

inductive Val where
  | num (n : Nat)
  | bool (b : Bool)
  | bytes (bs : Bytes)
  | arr (xs : List Nat)
deriving DecidableEq, Repr

/-- encoding of one value at its type; `none` = ill-typed / out of range
    (go-ethereum: `typeCheck` error; Solidity: does not compile). -/
def encVal : Ty → Val → Option Bytes
  | .uint b, .num n => if n < 2 ^ b then some (word n) else none
  | .address, .num n => if n < 2 ^ 160 then some (word n) else none
  | .bool, .bool b => some (word (if b then 1 else 0))
  | .bytes32, .bytes bs => if bs.length = 32 then some bs else none
  | .bytes, .bytes bs => some (word bs.length ++ padRight32 bs)
  | .uintArr b, .arr xs =>
    if xs.all (fun x => decide (x < 2 ^ b)) then some (word xs.length ++ xs.flatMap word) else none
  | _, _ => none

/-- heads and tails of a tuple; `off` = bytes of tail emitted so far, `hs` = size of all heads. -/
def encodeGo (hs : Nat) : List (Ty × Val) → Nat → Option (Bytes × Bytes)
  | [], _ => some ([], [])
  | (t, v) :: rest, off =>
    match encVal t v with
    | none => none
    | some e =>
      if t.isDynamic then
        match encodeGo hs rest (off + e.length) with
        | none => none
        | some (h, tl) => some (word (hs + off) ++ h, e ++ tl)
      else
        match encodeGo hs rest off with
        | none => none
        | some (h, tl) => some (e ++ h, tl)

/-- `abi.encode(args…)` -/
def encode (args : List (Ty × Val)) : Option Bytes :=
  (encodeGo (32 * args.length) args 0).map (fun p => p.1 ++ p.2)

/-- `abi.encode` with the types given as (generated) strings. -/
def encodeTyped (tys : List String) (vals : List Val) : Option Bytes :=
  match tys.mapM Ty.parse with
  | none => none
  | some ts => if ts.length = vals.length then encode (ts.zip vals) else none

/-! ## constants (generated from the sources) -/

abbrev groupSize : Nat := Gen.C40.groupSize
abbrev groupThreshold : Nat := Gen.C40.groupThreshold
abbrev activeThreshold : Nat := Gen.C40.activeThreshold
abbrev publicKeyByteSize : Nat := Gen.C40.publicKeyByteSize
abbrev signatureByteSize : Nat := Gen.C40.signatureByteSize
abbrev inactGroupThreshold : Nat := Gen.C40.inact_groupThreshold
abbrev inactSignatureByteSize : Nat := Gen.C40.inact_signatureByteSize
/-- the client's `signatureSize := 65` / `publicKeySize := 64` -/
abbrev goSignatureSize : Nat := Gen.C40.goSignatureSize
abbrev goPublicKeySize : Nat := Gen.C40.goPublicKeySize
abbrev goInactPublicKeySize : Nat := Gen.C40.goInactPublicKeySize

/-! ## client side -/

inductive Err where
  | key
  | sigSize (member len : Nat)
  | indexPanic (idx len : Nat)
  | pack
  | keyLen
deriving DecidableEq, Repr

/-- Go `sort.Slice(xs, <)` on integers: the sorted permutation (equal keys are indistinguishable). -/
def sortNat (xs : List Nat) : List Nat := xs.mergeSort (fun a b => decide (a ≤ b))

/-- first occurrences, in order (the `indexesCache` loop of `NewClaimPreimage`). -/
def dedup : List Nat → List Nat
  | [] => []
  | a :: as => a :: (dedup as).filter (fun b => b ≠ a)

/-- `convertPubKeyToChainFormat`: `LeftPadTo32Bytes` fails on more than 32 bytes. -/
def pubKeyChain (x y : Nat) : Except Err Bytes :=
  if x < 2 ^ 256 ∧ y < 2 ^ 256 then .ok (beBytes 32 x ++ beBytes 32 y) else .error .key

/-- `elliptic.Marshal(...)[1:]` for a point of the curve (coordinates below the field prime). -/
def marshalCropped (x y : Nat) : Bytes := beBytes 32 x ++ beBytes 32 y

/-- the per-member loop of `convertSignaturesToChainFormat` over the sorted indexes. -/
def concatSigs (sigs : List (Nat × Bytes)) : List Nat → Except Err Bytes
  | [] => .ok []
  | i :: rest =>
    let s := (sigs.lookup i).getD []
    if s.length ≠ goSignatureSize then .error (.sigSize i s.length)
    else match concatSigs sigs rest with
      | .ok bs => .ok (s ++ bs)
      | .error e => .error e

/-- `convertSignaturesToChainFormat`; `sigs` = the Go map in *iteration order* (keys distinct). -/
def convertSignatures (sigs : List (Nat × Bytes)) : Except Err (List Nat × Bytes) :=
  let idx := sortNat (sigs.map Prod.fst)
  match concatSigs sigs idx with
  | .ok bs => .ok (idx, bs)
  | .error e => .error e

/-- `computeOperatorsIDsHash` pre-image -/
def membersPreimageClient (ids : List Nat) : Option Bytes :=
  encodeTyped Gen.C40.goMembersHashTypes [.arr ids]

/-- `OperatorsIDs[operatingMemberIndex-1]` with `MemberIndex = uint8` arithmetic. -/
def operatorAt (ids : List Nat) (i : Nat) : Except Err Nat :=
  let k := (i + 255) % 256
  match ids[k]? with
  | some v => .ok v
  | none => .error (.indexPanic k ids.length)

def operatingIDs (ids : List Nat) : List Nat → Except Err (List Nat)
  | [] => .ok []
  | i :: rest =>
    match operatorAt ids i with
    | .error e => .error e
    | .ok v => match operatingIDs ids rest with
      | .ok vs => .ok (v :: vs)
      | .error e => .error e

structure DkgResult where
  submitter : Nat
  groupPubKey : Bytes
  misbehaved : List Nat
  signatures : Bytes
  signing : List Nat
  members : List Nat
  membersHash : Bytes
deriving DecidableEq, Repr

structure DkgInput where
  chainId : Nat
  startBlock : Nat
  submitter : Nat
  x : Nat
  y : Nat
  operating : List Nat
  misbehaved : List Nat
  /-- the signature map in iteration order -/
  sigs : List (Nat × Bytes)
  ids : List Nat

/-! ### where the client's lists come from: `group.Group` marks and `dkg.Result` -/

/-- one `MarkMemberAsInactive` (`dq = false`) / `MarkMemberAsDisqualified` (`dq = true`) on a group
    of members `1..n`: nothing happens unless the member `IsOperating`. State = (inactive,
    disqualified) in marking order. -/
def applyMark (n : Nat) (st : List Nat × List Nat) (m : Bool × Nat) : List Nat × List Nat :=
  let (ia, dq) := st
  let idx := m.2
  if 1 ≤ idx ∧ idx ≤ n ∧ ¬ idx ∈ ia ∧ ¬ idx ∈ dq then
    if m.1 then (ia, dq ++ [idx]) else (ia ++ [idx], dq)
  else st

def applyMarks (n : Nat) (marks : List (Bool × Nat)) : List Nat × List Nat :=
  marks.foldl (applyMark n) ([], [])

/-- `Group.OperatingMemberIndexes` -/
def groupOperating (n : Nat) (st : List Nat × List Nat) : List Nat :=
  (List.range' 1 n).filter (fun j => !(st.1.contains j) && !(st.2.contains j))

/-- `dkg.Result.MisbehavedMembersIndexes`: the set of inactive and disqualified members, sorted -/
def resultMisbehaved (st : List Nat × List Nat) : List Nat := sortNat (dedup (st.1 ++ st.2))

/-- `AssembleDKGResult` -/
def assembleDKGResult (H : Bytes → Bytes) (inp : DkgInput) : Except Err DkgResult :=
  match pubKeyChain inp.x inp.y with
  | .error e => .error e
  | .ok key =>
    let mis := sortNat inp.misbehaved
    match convertSignatures inp.sigs with
    | .error e => .error e
    | .ok (signers, sigBytes) =>
      match operatingIDs inp.ids (sortNat inp.operating) with
      | .error e => .error e
      | .ok opIds =>
        match membersPreimageClient opIds with
        | none => .error .pack
        | some pre =>
          .ok { submitter := inp.submitter, groupPubKey := key, misbehaved := mis,
                signatures := sigBytes, signing := signers, members := inp.ids,
                membersHash := H pre }

/-- `big.NewInt(int64(startBlock))` packed as `uint256` (two's complement for negatives). -/
def startBlockWord (startBlock : Nat) : Nat :=
  if startBlock < 2 ^ 63 then startBlock else 2 ^ 256 - (2 ^ 64 - startBlock % 2 ^ 64)

/-- pre-image of `CalculateDKGResultSignatureHash` (client) -/
def dkgSigPreimageClient (chainId x y : Nat) (mis : List Nat) (startBlock : Nat) : Except Err Bytes :=
  let key := marshalCropped x y
  if key.length ≠ goPublicKeySize then .error .keyLen else
  match encodeTyped Gen.C40.goDkgSigTypes
      [.num (chainId % 2 ^ 256), .bytes key, .arr (sortNat mis), .num (startBlockWord startBlock)] with
  | some b => .ok b
  | none => .error .pack

def walletIdClient (H : Bytes → Bytes) (x y : Nat) : Except Err Bytes :=
  match pubKeyChain x y with
  | .ok k => .ok (H k)
  | .error e => .error e

/-! ### inactivity claims -/

structure Claim where
  walletID : Bytes
  inactive : List Nat
  heartbeatFailed : Bool
  signatures : Bytes
  signing : List Nat
deriving DecidableEq, Repr

structure ClaimInput where
  chainId : Nat
  nonce : Nat
  x : Nat
  y : Nat
  inactive : List Nat
  heartbeatFailed : Bool
  walletID : Bytes
  sigs : List (Nat × Bytes)
  ids : List Nat

/-- `NewClaimPreimage`: unique, then sorted. -/
def claimInactive (raw : List Nat) : List Nat := sortNat (dedup raw)

def claimPreimageClient (chainId nonce x y : Nat) (inactive : List Nat) (hb : Bool) : Except Err Bytes :=
  let key := marshalCropped x y
  if key.length ≠ goInactPublicKeySize then .error .keyLen else
  match encodeTyped Gen.C40.goInactTypes
      [.num (chainId % 2 ^ 256), .num (nonce % 2 ^ 256), .bytes key, .arr inactive, .bool hb] with
  | some b => .ok b
  | none => .error .pack

/-- `AssembleInactivityClaim` (on the claim pre-image's member list) -/
def assembleClaim (inp : ClaimInput) : Except Err Claim :=
  match convertSignatures inp.sigs with
  | .error e => .error e
  | .ok (signers, sigBytes) =>
    .ok { walletID := inp.walletID, inactive := claimInactive inp.inactive,
          heartbeatFailed := inp.heartbeatFailed, signatures := sigBytes, signing := signers }

/-! ## contract side -/

/-- `for (i = 1; i < a.length; i++) if (a[i-1] >= a[i]) fail` passes -/
def chainLt : List Nat → Bool
  | a :: b :: rest => decide (a < b) && chainLt (b :: rest)
  | _ => true

/-- `EcdsaDkgValidator.validateFields`: the error message, `""` = valid,
    `"REVERT"` = checked arithmetic / index panic. -/
def validateFields (r : DkgResult) : String :=
  if r.groupPubKey.length ≠ publicKeyByteSize then "Malformed group public key" else
  let mis := r.misbehaved
  if groupSize < mis.length then "REVERT" else
  if groupSize - mis.length < activeThreshold then "Too many members misbehaving during DKG" else
  if mis.length > 1 ∧ (mis.headD 0 < 1 ∨ mis.getLastD 0 > groupSize) then
    "Corrupted misbehaved members indices" else
  if mis.length > 1 ∧ ¬ chainLt mis then "Corrupted misbehaved members indices" else
  let signaturesCount := r.signatures.length / signatureByteSize
  if r.signatures.length = 0 then "No signatures provided" else
  if r.signatures.length % signatureByteSize ≠ 0 then "Malformed signatures array" else
  if signaturesCount ≠ r.signing.length then "Unexpected signatures count" else
  if signaturesCount < groupThreshold then "Too few signatures" else
  if signaturesCount > groupSize then "Too many signatures" else
  match r.signing with
  | [] => "REVERT"
  | s0 :: _ =>
    if s0 < 1 ∨ r.signing.getLastD 0 > groupSize then "Corrupted signing member indices" else
    if ¬ chainLt r.signing then "Corrupted signing member indices" else ""

/-- the loop of `validateMembersHash`; the array index `k` into `misbehavedMembersIndices` is
    represented by the element under the index (`cur`) and the elements after it (`rest`):
    `k < length - 1` ⇔ `rest ≠ []`, `k++` = move to the head of `rest`.
    `none` = revert (`uint8 0 - 1`). Writes to `groupMembers[j++]` are collected in order. -/
def removeLoop : Nat → List Nat → Nat → List Nat → Option (List Nat)
  | _, [], _, _ => some []
  | i, m :: ms, cur, rest =>
    if cur = 0 then none
    else if i ≠ cur - 1 then (removeLoop (i + 1) ms cur rest).map (m :: ·)
    else match rest with
      | [] => removeLoop (i + 1) ms cur []
      | c :: r => removeLoop (i + 1) ms c r

/-- `groupMembers` of `validateMembersHash` when `misbehavedMembersIndices.length > 0`:
    a zero-initialised array of `members.length - misbehaved.length` entries (checked subtraction);
    a write beyond its end reverts — that happens iff more elements are written than it holds. -/
def contractGroupMembers (members mis : List Nat) : Option (List Nat) :=
  match mis with
  | [] => some members
  | c :: rest =>
    if members.length < mis.length then none else
    let cap := members.length - mis.length
    match removeLoop 0 members c rest with
    | none => none
    | some out => if out.length > cap then none else some (out ++ List.replicate (cap - out.length) 0)

/-- pre-image of the members hash computed by `validateMembersHash` -/
def membersPreimageContract (members mis : List Nat) : Option Bytes :=
  match mis with
  | [] => encodeTyped Gen.C40.solMembersHashTypes1 [.arr members]
  | _ => match contractGroupMembers members mis with
    | none => none
    | some gm => encodeTyped Gen.C40.solMembersHashTypes0 [.arr gm]

def validateMembersHash (H : Bytes → Bytes) (r : DkgResult) : Option Bool :=
  (membersPreimageContract r.members r.misbehaved).map (fun pre => H pre == r.membersHash)

/-- `abi.encode(block.chainid, result.groupPubKey, result.misbehavedMembersIndices, startBlock)` -/
def dkgSigPreimageContract (chainid : Nat) (r : DkgResult) (startBlock : Nat) : Option Bytes :=
  encodeTyped Gen.C40.solDkgSigTypes
    [.num chainid, .bytes r.groupPubKey, .arr r.misbehaved, .num startBlock]

def ethPrefix : Bytes := "\x19Ethereum Signed Message:\n32".toUTF8.toList

/-- `toEthSignedMessageHash` -/
def ethSigned (H : Bytes → Bytes) (h : Bytes) : Bytes := H (ethPrefix ++ h)

def slice (bs : Bytes) (start len : Nat) : Bytes := (bs.drop start).take len

/-- the signature loop shared by `validateSignatures` and `verifyClaim`:
    `recover` = OpenZeppelin `ECDSA.recover` (`none` = revert on a malformed signature),
    `addrs[i]` = expected address of the i-th signature. `none` = revert. -/
def checkSigLoop (recover : Bytes → Bytes → Option Nat) (hash sigs : Bytes) (sz : Nat)
    (addrs : List Nat) : List Nat → Option Bool
  | [] => some true
  | i :: rest =>
    match addrs[i]?, recover hash (slice sigs (sz * i) sz) with
    | some a, some got => if a = got then checkSigLoop recover hash sigs sz addrs rest else some false
    | _, _ => none

/-- `members[index - 1]` for every index; `none` = revert -/
def pickMembers (members : List Nat) : List Nat → Option (List Nat)
  | [] => some []
  | i :: rest =>
    if i = 0 then none else
    match members[i - 1]?, pickMembers members rest with
    | some v, some vs => some (v :: vs)
    | _, _ => none

/-- `EcdsaDkgValidator.validateSignatures`; `addrOf` = `sortitionPool.getIDOperators`. -/
def validateSignatures (H : Bytes → Bytes) (recover : Bytes → Bytes → Option Nat) (addrOf : Nat → Nat)
    (chainid : Nat) (r : DkgResult) (startBlock : Nat) : Option Bool :=
  match dkgSigPreimageContract chainid r startBlock, pickMembers r.members r.signing with
  | some pre, some ids =>
    checkSigLoop recover (ethSigned H (H pre)) r.signatures signatureByteSize (ids.map addrOf)
      (List.range (r.signatures.length / signatureByteSize))
  | _, _ => none

/-- `Wallets.addWallet`: `walletID = keccak256(publicKey)` -/
def walletIdContract (H : Bytes → Bytes) (publicKey : Bytes) : Bytes := H publicKey

/-- `EcdsaInactivity.validateMembersIndices` (true = no revert) -/
def validateMembersIndices (indices : List Nat) (groupSize : Nat) : Bool :=
  decide (indices.length > 0 ∧ indices.length ≤ groupSize) &&
  decide (indices.headD 0 > 0 ∧ indices.getLastD 0 ≤ groupSize) &&
  chainLt indices

/-- static part of `EcdsaInactivity.verifyClaim`: `""` = passes, otherwise the revert reason. -/
def verifyClaimStatic (c : Claim) (nMembers : Nat) : String :=
  if ¬ validateMembersIndices c.inactive nMembers then "Corrupted members indices" else
  let signaturesCount := c.signatures.length / inactSignatureByteSize
  if c.signatures.length = 0 then "No signatures provided" else
  if c.signatures.length % inactSignatureByteSize ≠ 0 then "Malformed signatures array" else
  if signaturesCount ≠ c.signing.length then "Unexpected signatures count" else
  if signaturesCount < inactGroupThreshold then "Too few signatures" else
  if signaturesCount > nMembers then "Too many signatures" else
  if ¬ validateMembersIndices c.signing nMembers then "Corrupted members indices" else ""

/-! ### the same checks with every comparison *generated from the Solidity text*

`Gen.C40.vfOp<k>` / `vcOp<k>` / `viOp<k>` is the k-th comparison operator occurring in the
`if (…)` / `require(…)` conditions of `validateFields` / `verifyClaim` / `validateMembersIndices`
(textual order, loop headers excluded).  The monitor runs these versions, so an edited operator in
the contract (`<` → `<=`) changes the monitor and produces a concrete rejected client result;
`Props/C40.lean` proves them equal to the plain versions above for the unchanged contract. -/

/-- some adjacent pair satisfies `op` (a validation loop with `if (op a[i-1] a[i]) fail`) -/
def chainAny (op : Nat → Nat → Bool) : List Nat → Bool
  | a :: b :: rest => op a b || chainAny op (b :: rest)
  | _ => false

/-- all adjacent pairs satisfy `op` (a validation loop with `require(op a[i] a[i+1])`) -/
def chainAll (op : Nat → Nat → Bool) : List Nat → Bool
  | a :: b :: rest => op a b && chainAll op (b :: rest)
  | _ => true

open Gen.C40 in
def validateFieldsGen (r : DkgResult) : String :=
  if vfOp0 r.groupPubKey.length publicKeyByteSize then "Malformed group public key" else
  let mis := r.misbehaved
  if groupSize < mis.length then "REVERT" else
  if vfOp1 (groupSize - mis.length) activeThreshold then "Too many members misbehaving during DKG" else
  if vfOp2 mis.length 1 && (vfOp3 (mis.headD 0) 1 || vfOp4 (mis.getLastD 0) groupSize) then
    "Corrupted misbehaved members indices" else
  if vfOp2 mis.length 1 && chainAny vfOp5 mis then "Corrupted misbehaved members indices" else
  let signaturesCount := r.signatures.length / signatureByteSize
  if vfOp6 r.signatures.length 0 then "No signatures provided" else
  if vfOp7 (r.signatures.length % signatureByteSize) 0 then "Malformed signatures array" else
  if vfOp8 signaturesCount r.signing.length then "Unexpected signatures count" else
  if vfOp9 signaturesCount groupThreshold then "Too few signatures" else
  if vfOp10 signaturesCount groupSize then "Too many signatures" else
  match r.signing with
  | [] => "REVERT"
  | s0 :: _ =>
    if vfOp11 s0 1 || vfOp12 (r.signing.getLastD 0) groupSize then "Corrupted signing member indices" else
    if chainAny vfOp13 r.signing then "Corrupted signing member indices" else ""

open Gen.C40 in
def validateMembersIndicesGen (indices : List Nat) (groupSize : Nat) : Bool :=
  (viOp0 indices.length 0 && viOp1 indices.length groupSize) &&
  (viOp2 (indices.headD 0) 0 && viOp3 (indices.getLastD 0) groupSize) &&
  chainAll viOp4 indices

open Gen.C40 in
def verifyClaimStaticGen (c : Claim) (nMembers : Nat) : String :=
  if !validateMembersIndicesGen c.inactive nMembers then "Corrupted members indices" else
  let signaturesCount := c.signatures.length / inactSignatureByteSize
  if !vcOp0 c.signatures.length 0 then "No signatures provided" else
  if !vcOp1 (c.signatures.length % inactSignatureByteSize) 0 then "Malformed signatures array" else
  if !vcOp2 signaturesCount c.signing.length then "Unexpected signatures count" else
  if !vcOp3 signaturesCount inactGroupThreshold then "Too few signatures" else
  if !vcOp4 signaturesCount nMembers then "Too many signatures" else
  if !validateMembersIndicesGen c.signing nMembers then "Corrupted members indices" else ""

/-- `abi.encode(block.chainid, nonce, walletPubKey, claim.inactiveMembersIndices, claim.heartbeatFailed)` -/
def claimPreimageContract (chainid nonce : Nat) (walletPubKey : Bytes) (c : Claim) : Option Bytes :=
  encodeTyped Gen.C40.solInactTypes
    [.num chainid, .num nonce, .bytes walletPubKey, .arr c.inactive, .bool c.heartbeatFailed]

/-- the signature loop of `EcdsaInactivity.verifyClaim`: signature `i` must recover to
    `groupMembersAddresses[signingMembersIndices[i] - 1]` (`addrOf` = `getIDOperators`).
    `some false` = revert "Invalid signature", `none` = another revert (index arithmetic, malformed
    signature).  The final `require(senderSignatureExists)` depends on `msg.sender` (who submits)
    and is not part of the claim's content; it is not modelled. -/
def verifyClaimSignatures (H : Bytes → Bytes) (recover : Bytes → Bytes → Option Nat)
    (addrOf : Nat → Nat) (chainid nonce : Nat) (walletPubKey : Bytes) (c : Claim)
    (groupMembers : List Nat) : Option Bool :=
  match claimPreimageContract chainid nonce walletPubKey c, pickMembers groupMembers c.signing with
  | some pre, some ids =>
    checkSigLoop recover (ethSigned H (H pre)) c.signatures inactSignatureByteSize (ids.map addrOf)
      (List.range (c.signatures.length / inactSignatureByteSize))
  | _, _ => none

/-! ## monitor -/

def isPartition (n : Nat) (operating mis : List Nat) : Bool :=
  sortNat (operating ++ mis) == List.range' 1 n

def keysOk (n : Nat) (sigs : List (Nat × Bytes)) : Bool :=
  let ks := sigs.map Prod.fst
  chainLt (sortNat ks) && ks.all (fun k => decide (1 ≤ k ∧ k ≤ n))

/-- the inputs the property quantifies over (any group size up to 255) -/
def dkgInDomain (inp : DkgInput) : Bool :=
  decide (inp.ids.length ≤ 255) && isPartition inp.ids.length inp.operating inp.misbehaved &&
  keysOk inp.ids.length inp.sigs && decide (inp.x < 2 ^ 256 ∧ inp.y < 2 ^ 256) &&
  decide (inp.chainId < 2 ^ 256 ∧ inp.startBlock < 2 ^ 63) &&
  inp.ids.all (fun v => decide (v < 2 ^ 32)) && decide (1 ≤ inp.submitter ∧ inp.submitter ≤ inp.ids.length)

/-- … of the size the contract is deployed for, meeting the quorum, with enough well-formed
    signatures: the client *would submit* this result. -/
def dkgSubmittable (inp : DkgInput) : Bool :=
  dkgInDomain inp && decide (inp.ids.length = groupSize) &&
  decide (activeThreshold ≤ inp.operating.length) &&
  decide (groupThreshold ≤ inp.sigs.length ∧ inp.sigs.length ≤ groupSize) &&
  inp.sigs.all (fun s => decide (s.2.length = goSignatureSize))

structure DkgObs where
  res : DkgResult
  hash : Bytes
  recovered : List Bool
  walletId : Bytes

/-- all the per-signature flags that belong to really signed supporters are set -/
def realRecovered (signing : List Nat) (recovered : List Bool) (real : List Nat) : Bool :=
  signing.length == recovered.length &&
  (signing.zip recovered).all (fun p => !(real.contains p.1) || p.2)

/-- The property, evaluated on what the implementation returned.
    `real` = supporters whose signature was made with the client's signer over the client's hash
    by the operator `ids[idx-1]`. -/
def holdsDkg (H : Bytes → Bytes) (inp : DkgInput) (real : List Nat) : Option DkgObs → Bool
  | none => !dkgSubmittable inp
  | some o =>
    (!dkgInDomain inp ||
      (validateMembersHash H o.res == some true &&
       (dkgSigPreimageContract inp.chainId o.res inp.startBlock).map H == some o.hash &&
       walletIdContract H o.res.groupPubKey == o.walletId &&
       o.res.members == inp.ids && o.res.submitter == inp.submitter &&
       realRecovered o.res.signing o.recovered real)) &&
    (!dkgSubmittable inp ||
      (validateFieldsGen o.res == "" &&
       (!(inp.sigs.all (fun s => real.contains s.1)) || (o.recovered.all id && o.recovered.length == inp.sigs.length))))

def claimInDomain (inp : ClaimInput) : Bool :=
  decide (inp.ids.length ≤ 255) && keysOk inp.ids.length inp.sigs &&
  decide (inp.x < 2 ^ 256 ∧ inp.y < 2 ^ 256) && decide (inp.chainId < 2 ^ 256 ∧ inp.nonce < 2 ^ 256) &&
  inp.inactive.all (fun k => decide (1 ≤ k ∧ k ≤ inp.ids.length)) && decide (inp.walletID.length = 32)

def claimSubmittable (inp : ClaimInput) : Bool :=
  claimInDomain inp && decide (inp.inactive ≠ []) &&
  decide (inactGroupThreshold ≤ inp.sigs.length) &&
  inp.sigs.all (fun s => decide (s.2.length = goSignatureSize))

structure ClaimObs where
  claim : Claim
  hash : Bytes
  recovered : List Bool

def holdsClaim (H : Bytes → Bytes) (inp : ClaimInput) (real : List Nat) : Option ClaimObs → Bool
  | none => !claimSubmittable inp
  | some o =>
    (!claimInDomain inp ||
      ((claimPreimageContract inp.chainId inp.nonce (marshalCropped inp.x inp.y) o.claim).map H == some o.hash &&
       o.claim.walletID == inp.walletID && o.claim.heartbeatFailed == inp.heartbeatFailed &&
       realRecovered o.claim.signing o.recovered real)) &&
    (!claimSubmittable inp ||
      (verifyClaimStaticGen o.claim inp.ids.length == "" &&
       (!(inp.sigs.all (fun s => real.contains s.1)) || (o.recovered.all id && o.recovered.length == inp.sigs.length))))

end KeepVerif.C40
