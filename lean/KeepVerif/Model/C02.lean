import KeepVerif.Model.C01
import KeepVerif.Gen.C02
/-!
# C02 model: share consistency of the GJKR result

Uses the 12-phase model of `Model/C01.lean` (`share`, `publicKeyShares`, `gk` of every member) and
adds the observation of the C02 harness and the monitor.
-/
namespace KeepVerif.C02
open KeepVerif.C01

/-- all sublists of length `k` (in order) -/
def subsetsOfSize {α} : Nat → List α → List (List α)
  | 0, _ => [[]]
  | _ + 1, [] => []
  | k + 1, x :: xs => (subsetsOfSize k xs).map (x :: ·) ++ subsetsOfSize (k + 1) xs

/-- what the harness observed of one finished honest member -/
structure Obs where
  id : Nat
  share : Nat
  pkFlags : List Bool     -- share·G2 = public key share computed by every other finished honest member
  gkFlag : Bool           -- group public key = X·G2
  deriving Repr

/-- C02 as a decidable predicate: every (t+1)-subset of the honest shares interpolates at 0 to the
    secret `X` whose public key is every member's group public key, and every honest member's
    share matches the public key share the others hold for it. -/
def holds (q t : Nat) (X : Nat) (obs : List Obs) : Bool :=
  (subsetsOfSize (t + 1) (obs.map (fun o => (o.id, o.share)))).all (fun s => interpolate0 q s = X)
  && obs.all (fun o => o.gkFlag && o.pkFlags.all id)

/-- finished honest members of the model run -/
def finished (cfg : Cfg) : List St := (honestStates cfg).filter (fun st => st.status = .ok)

/-- the secret the first `t+1` finished honest members interpolate to -/
def secretOf (q t : Nat) (fin : List St) : Option Nat :=
  if fin.length ≥ t + 1 then
    some (interpolate0 q ((fin.take (t + 1)).map (fun st => (st.id, st.share))))
  else none

/-- model observation of member `st` among the finished honest members `fin` -/
def obsOf (q : Nat) (sec : Option Nat) (fin : List St) (st : St) : Obs :=
  { id := st.id, share := st.share,
    pkFlags := (fin.filter (·.id ≠ st.id)).map (fun p =>
      match lookup st.id (publicKeyShares p) with
      | some e => decide (e = st.share % q)
      | none => false),
    gkFlag := match sec, st.gk with
      | some x, some k => decide (k = x)
      | _, _ => false }

/-- 'x' entries: the other member holds no public key share for this one -/
def pkMissing (fin : List St) (st : St) : List Bool :=
  (fin.filter (·.id ≠ st.id)).map (fun p => (lookup st.id (publicKeyShares p)).isNone)

/-- the model's verdict on its own run -/
def modelHolds (cfg : Cfg) : Bool :=
  let fin := finished cfg
  match secretOf cfg.q cfg.t fin with
  | none => true
  | some x => holds cfg.q cfg.t x (fin.map (obsOf cfg.q (some x) fin))

end KeepVerif.C02
