import KeepVerif.Gen.C14
/-!
# C14 model: `SyncMachine.Execute` / `stateTransition` (pkg/protocol/state/sync_machine.go)

The machine is modelled as a configuration that is advanced to its next *quiescent* point
after every environment event (a new block height, a message delivered to the channel, the
return of a blocking `Initiate`).  Quiescent points are exactly the places where the real
goroutine blocks: `WaitForBlockHeight(start)`, `WaitForBlockHeight(lastEnd + delay)`, inside
`Initiate`, and the `select` loop with an armed `BlockHeightWaiter(lastEnd + delay + active)`.

Block counter per A-bc: a waiter for height `h` yields `h` (the requested height) once the
height is `≥ h`.  `select` between a buffered message and a ready end-block waiter is
nondeterministic in Go; the model resolves it "messages first" and raises `racy` whenever the
other choice was possible (the driver then declines to predict).
-/
namespace KeepVerif.C14

structure Spec where
  delay : Nat
  active : Nat
  gated : Bool := false
  initErr : Bool := false
  nextErr : Bool := false
deriving Repr, DecidableEq

/-- environment events -/
inductive Ev
  | block (h : Nat)
  | msg (id : Nat)
  | release
deriving Repr, DecidableEq

/-- calls made on the block counter -/
inductive Call
  | wait (h : Nat)   -- `WaitForBlockHeight(h)`
  | arm (h : Nat)    -- `BlockHeightWaiter(h)`
deriving Repr, DecidableEq

inductive Phase
  | waitStart (start : Nat)
  | waitDelay (t : Nat)
  | initiating (t : Nat)
  | loop (w : Nat)
  | finished
deriving Repr, DecidableEq

inductive Res
  | running
  | final (k : Nat) (endBlock : Nat)
  | errInitiate
  | errNext
deriving Repr, DecidableEq

/-- what is recorded about one executed state -/
structure Rec where
  entryH : Nat                 -- height when `channel.Recv` was called for it (entry)
  thr : Option Nat := none     -- argument of its `WaitForBlockHeight` (lastEnd + delay)
  initH : Option Nat := none   -- height when `Initiate` was called
  msgs : List Nat := []        -- messages handed to its `Receive`, in order
deriving Repr, DecidableEq

structure Cfg where
  height : Nat
  phase : Phase
  cur : Spec
  rest : List Spec
  k : Nat
  buf : List Nat := []         -- `recvChan`
  done : List Rec := []        -- records of the states that ended, oldest first
  crec : Rec                   -- record of the current state
  calls : List Call := []
  res : Res := .running
  dropped : List Nat := []     -- delivered when no handler had a live context
  racy : Bool := false
deriving Repr

inductive Out
  | quiet (c : Cfg)
  | fired (c : Cfg) (w : Nat)   -- the end-block waiter yielded `w`

/-- the `select` loop: buffered messages go to the current state; then the waiter. -/
def loopStage (c : Cfg) (w : Nat) : Out :=
  let c := { c with racy := c.racy || (decide (c.height ≥ w) && !c.buf.isEmpty) }
  let c := { c with crec := { c.crec with msgs := c.crec.msgs ++ c.buf }, buf := [], phase := .loop w }
  if c.height ≥ w then .fired c w else .quiet c

/-- after `Initiate` returned: error, or arm the waiter for `initiateDelay + ActiveBlocks`. -/
def afterInit (c : Cfg) (t : Nat) : Out :=
  if c.cur.initErr then .quiet { c with phase := .finished, res := .errInitiate }
  else
    let w := t + c.cur.active
    loopStage { c with calls := c.calls ++ [.arm w] } w

/-- `WaitForBlockHeight(initiateDelay)` returned: call `Initiate`. -/
def initStage (c : Cfg) (t : Nat) : Out :=
  let c := { c with crec := { c.crec with initH := some c.height } }
  if c.cur.gated then .quiet { c with phase := .initiating t } else afterInit c t

/-- `stateTransition` entered with `lastStateEndBlockHeight = e`. -/
def delayStage (c : Cfg) (e : Nat) : Out :=
  let t := e + c.cur.delay
  let c := { c with calls := c.calls ++ [.wait t], crec := { c.crec with thr := some t } }
  if c.height ≥ t then initStage c t else .quiet { c with phase := .waitDelay t }

/-- the `case lastStateEndBlockHeight := <-blockWaiter` branch, repeated while states end
    immediately (structural recursion on the remaining chain). -/
def chain : List Spec → Out → Cfg
  | _, .quiet c => c
  | rest, .fired c w =>
    if c.cur.nextErr then { c with phase := .finished, res := .errNext }
    else match rest with
      | [] => { c with phase := .finished, res := .final c.k w }
      | s :: rest' =>
        chain rest' (delayStage
          { c with cur := s, rest := rest', k := c.k + 1, done := c.done ++ [c.crec],
                   crec := { entryH := c.height } } w)

/-- run the machine to its next quiescent point -/
def settle (c : Cfg) : Cfg :=
  match c.phase with
  | .waitStart s => if c.height ≥ s then chain c.rest (delayStage c s) else c
  | .waitDelay t => if c.height ≥ t then chain c.rest (initStage c t) else c
  | .initiating _ => c
  | .loop w => chain c.rest (loopStage c w)
  | .finished => c

def step (c : Cfg) : Ev → Cfg
  | .block h => settle { c with height := max c.height h }
  | .msg id =>
    match c.phase with
    | .finished => { c with dropped := c.dropped ++ [id] }
    | _ => settle { c with buf := c.buf ++ [id] }
  | .release =>
    match c.phase with
    | .initiating t => chain c.rest (afterInit c t)
    | _ => c

/-- `Execute(start)` called at height `h0` on the chain `s :: rest`. -/
def init (h0 start : Nat) (s : Spec) (rest : List Spec) : Cfg :=
  settle { height := h0, phase := .waitStart start, cur := s, rest := rest, k := 0,
           crec := { entryH := h0 }, calls := [.wait start] }

/-- the environment gives the machine what it is waiting for -/
def drainStep (c : Cfg) : Cfg :=
  match c.phase with
  | .finished => c
  | .initiating _ => step c .release
  | .waitStart s => step c (.block s)
  | .waitDelay t => step c (.block t)
  | .loop w => step c (.block w)

def drain : Nat → Cfg → Cfg
  | 0, c => c
  | n + 1, c => drain n (drainStep c)

def exec (h0 start : Nat) (s : Spec) (rest : List Spec) (evs : List Ev) : Cfg :=
  evs.foldl step (init h0 start s rest)

def run (h0 start : Nat) (s : Spec) (rest : List Spec) (evs : List Ev) : Cfg :=
  drain (3 * (rest.length + 1) + 1) (exec h0 start s rest evs)

/-! ## nominal schedule -/

/-- end block of a chain entered at `e` -/
def endOf (e : Nat) : List Spec → Nat
  | [] => e
  | s :: r => endOf (e + s.delay + s.active) r

/-- block counter calls of a chain entered at `e` -/
def sched (e : Nat) : List Spec → List Call
  | [] => []
  | s :: r => .wait (e + s.delay) :: .arm (e + s.delay + s.active) :: sched (e + s.delay + s.active) r

def total (l : List Spec) : Nat := endOf 0 l

/-! ## the real chains, from generated facts -/

def zipSpecs : List Nat → List Nat → List Spec
  | d :: ds, a :: as => { delay := d, active := a } :: zipSpecs ds as
  | _, _ => []

def gjkrChain : List Spec := zipSpecs Gen.C14.gjkrDelays Gen.C14.gjkrActives
def resultChain : List Spec := zipSpecs Gen.C14.resultDelays Gen.C14.resultActives

/-- `ExecuteDKG`: the result-publication machine is started at the block the GJKR machine ended
    at.  Nominal block-counter calls of one member relative to the DKG start block, up to the
    `WaitForBlockHeight` of the last publication state. -/
def dkgNominal : List Call :=
  let e := endOf 0 gjkrChain
  .wait 0 :: sched 0 gjkrChain ++ .wait e :: (sched e resultChain).dropLast

/-! ## monitor: the property as a predicate on what the implementation did -/

/-- observation of one executed state -/
structure ObsRec where
  entryH : Nat
  initH : Option Nat
  msgs : List Nat
  ctxLive : Bool
  ctxCancelled : Bool
deriving Repr, DecidableEq

structure Obs where
  recs : List ObsRec
  calls : List Call
  endBlock : Nat
  res : Res
  dropped : List Nat
  left : Nat
deriving Repr

def isPrefix [DecidableEq α] : List α → List α → Bool
  | [], _ => true
  | _ :: _, [] => false
  | a :: as, b :: bs => decide (a = b) && isPrefix as bs

/-- thresholds `lastEnd + delay` of every state of the chain entered at `e` -/
def thresholds (e : Nat) : List Spec → List Nat
  | [] => []
  | s :: r => (e + s.delay) :: thresholds (e + s.delay + s.active) r

/-- entry blocks (end of the previous state) of every state -/
def entries (e : Nat) : List Spec → List Nat
  | [] => []
  | s :: r => e :: entries (e + s.delay + s.active) r

def allZip3 (f : ObsRec → Nat → Nat → Bool) : List ObsRec → List Nat → List Nat → Bool
  | r :: rs, a :: as, b :: bs => f r a b && allZip3 f rs as bs
  | [], _, _ => true
  | _, _, _ => false

def delivered : List Ev → List Nat
  | [] => []
  | .msg id :: r => id :: delivered r
  | _ :: r => delivered r

def removeAll (xs drop : List Nat) : List Nat := xs.filter (fun x => !drop.contains x)

/-- the block-window part of the monitor: every block counter call is the nominal one, in
    order; a normal end is the last state, at exactly `start + total`, after all calls. -/
def holdsSched (start : Nat) (specs : List Spec) (calls : List Call) (res : Res) : Bool :=
  isPrefix calls (.wait start :: sched start specs)
  && (match res with
      | .final k e => decide (k + 1 = specs.length) && decide (e = start + total specs)
                      && decide (calls.length = 1 + 2 * specs.length)
      | .running => false
      | _ => true)

/-- the message part of the monitor: the delivered sequence is exactly what was handed to the
    states (in state order), then what is still buffered (`left` messages), then what found no
    live handler — nothing lost, duplicated, reordered or invented. -/
def holdsMsgs (delivered handed : List Nat) (left : Nat) (dropped : List Nat) : Bool :=
  decide (delivered = handed ++ ((delivered.drop handed.length).take left) ++ dropped)
  && decide (handed.length + left + dropped.length = delivered.length)

/-- a normal end reports its own end block and has executed every state -/
def holdsFinal (specs : List Spec) (o : Obs) : Bool :=
  match o.res with
  | .final _ e => decide (o.endBlock = e) && decide (o.recs.length = specs.length)
  | _ => true

/-- the per-record clause: record, nominal entry block, nominal initiate threshold -/
def recOk (r : ObsRec) (e t : Nat) : Bool :=
  decide (e ≤ r.entryH) && r.ctxLive && r.ctxCancelled &&
    (match r.initH with | some h => decide (t ≤ h) && decide (r.entryH ≤ h) | none => false)

/-- a state is entered not before the previous one ended (state 0 registers its handler before
    the start block) and initiated not before its delay, with a live context that is cancelled
    when it ends -/
def holdsRecs (start : Nat) (specs : List Spec) (recs : List ObsRec) : Bool :=
  allZip3 recOk recs (0 :: (entries start specs).tail) (thresholds start specs)

def holds (start : Nat) (specs : List Spec) (evs : List Ev) (o : Obs) : Bool :=
  holdsSched start specs o.calls o.res
  && holdsFinal specs o
  && holdsRecs start specs o.recs
  -- messages: FIFO, none lost, none duplicated, none invented
  && holdsMsgs (delivered evs) (o.recs.map (·.msgs)).flatten o.left o.dropped

/-- what the driver prints for a model configuration, as an observation (contexts: live at
    `Initiate`, cancelled at the end — for every initiated state) -/
def obsRecOf (r : Rec) : ObsRec :=
  { entryH := r.entryH, initH := r.initH, msgs := r.msgs,
    ctxLive := r.initH.isSome, ctxCancelled := r.initH.isSome }

def obsOf (c : Cfg) : Obs :=
  { recs := (c.done ++ [c.crec]).map obsRecOf, calls := c.calls,
    endBlock := (match c.res with | .final _ e => e | _ => 0), res := c.res,
    dropped := c.dropped, left := c.buf.length }

end KeepVerif.C14
