/-!
# C37 model: event deduplicators (pkg/tbtc/deduplicator.go, pkg/beacon/event/deduplicator.go)
and keep-common `cache.TimeCache`.

* `Entries` is one `TimeCache`: `(item, addedAt)` pairs, oldest first (the Go `indexer` list read
  from the back).  The clock is an explicit parameter `now` of every operation.
* `Dedup` is the family of the four caches (`tbtc` seed / result / wallet-closed, `beacon` seed).
* `notify` is the code as it is now (`Sweep(); return Add(key)`), `notifyCheckThenAdd` is the code
  as it was before the repair (`Sweep(); if !Has(key) { Add(key); return true }; return false`).
* `cacheKey` is the key construction as it is now (parts joined by `:`); `concatKey` is the
  separator-less key used before the repair (kept for the counterexample theorem).
* The small-step semantics `step`/`run` make every mutex-protected cache call one atomic action
  and interleave any number of threads (`Nat`-indexed) under an arbitrary schedule.
-/
namespace KeepVerif.C37

/-! ## TimeCache -/

abbrev Key := List Char
abbrev Entries := List (Key × Nat)

/-- `TimeCache.sweep`: drop the oldest entries while `time.Since(t) > timespan`. -/
def sweep (span now : Nat) (es : Entries) : Entries :=
  es.dropWhile (fun e => decide (now - e.2 > span))

/-- `TimeCache.Has` -/
def has (es : Entries) (k : Key) : Bool := es.any (fun e => e.1 == k)

/-- `TimeCache.Add`: `false` if present; else sweep, insert, `true`. -/
def add (span now : Nat) (es : Entries) (k : Key) : Bool × Entries :=
  if has es k then (false, es) else (true, sweep span now es ++ [(k, now)])

/-! ## The deduplicators -/

inductive CacheId | tbtcSeed | tbtcResult | tbtcWallet | beaconSeed
  deriving DecidableEq, Repr

abbrev Dedup := CacheId → Entries

def Dedup.empty : Dedup := fun _ => []

def Dedup.set (d : Dedup) (c : CacheId) (es : Entries) : Dedup :=
  fun c' => if c' = c then es else d c'

/-- the code as it is: `cache.Sweep(); return cache.Add(key)` -/
def notify (span now : Nat) (d : Dedup) (c : CacheId) (k : Key) : Bool × Dedup :=
  let r := add span now (sweep span now (d c)) k
  (r.1, d.set c r.2)

/-- the code before the repair: `Sweep(); if !Has(k) { Add(k); return true }; return false` -/
def notifyCheckThenAdd (span now : Nat) (d : Dedup) (c : CacheId) (k : Key) : Bool × Dedup :=
  let es := sweep span now (d c)
  if !has es k then (true, d.set c (add span now es k).2) else (false, d.set c es)

/-- a sequential history of deliveries `(now, cache, key)`; the booleans returned. -/
def runSeq (span : Nat) : Dedup → List (Nat × CacheId × Key) → List Bool
  | _, [] => []
  | d, (now, c, k) :: rest =>
    let r := notify span now d c k
    r.1 :: runSeq span r.2 rest

/-! ## Events and cache keys -/

inductive Event
  | dkgStarted (seed : Nat)
  | resultSubmitted (seed : Nat) (hash : List UInt8) (block : Nat)
  | walletClosed (id : List UInt8)
  | beaconDkgStarted (seed : Nat)
  deriving DecidableEq

/-- byte strings have the fixed length 32 (`[32]byte`) -/
def Event.WF : Event → Prop
  | .resultSubmitted _ h _ => h.length = 32
  | .walletClosed i => i.length = 32
  | _ => True

/-- `big.Int.Text(16)` for non-negative values -/
def hexNat (n : Nat) : Key := Nat.toDigits 16 n

/-- `hex.EncodeToString` -/
def hexBytes : List UInt8 → Key
  | [] => []
  | b :: bs => Nat.digitChar (b.toNat / 16) :: Nat.digitChar (b.toNat % 16) :: hexBytes bs

/-- `strconv.FormatUint(_, 10)` -/
def decNat (n : Nat) : Key := Nat.toDigits 10 n

def sep : Char := ':'

/-- the result key as it is now -/
def resultKey (seed : Nat) (hash : List UInt8) (block : Nat) : Key :=
  hexNat seed ++ sep :: (hexBytes hash ++ sep :: decNat block)

/-- the result key before the repair: plain concatenation -/
def concatKey (seed : Nat) (hash : List UInt8) (block : Nat) : Key :=
  hexNat seed ++ hexBytes hash ++ decNat block

def cacheOf : Event → CacheId
  | .dkgStarted _ => .tbtcSeed
  | .resultSubmitted .. => .tbtcResult
  | .walletClosed _ => .tbtcWallet
  | .beaconDkgStarted _ => .beaconSeed

def cacheKey : Event → Key
  | .dkgStarted s => hexNat s
  | .resultSubmitted s h b => resultKey s h b
  | .walletClosed i => hexBytes i
  | .beaconDkgStarted s => hexNat s

/-- what the implementation returns on a sequential history of events, all at clock `now`
    (the harness cannot move the clock; 7-day periods). -/
def model (span now : Nat) (evs : List Event) : List Bool :=
  runSeq span Dedup.empty (evs.map fun e => (now, cacheOf e, cacheKey e))

/-! ## Specification side: first occurrences -/

/-- `true` exactly at the first occurrence of each value (given the values already `seen`). -/
def firstOccFrom {α} [DecidableEq α] : List α → List α → List Bool
  | _, [] => []
  | seen, x :: xs => (!decide (x ∈ seen)) :: firstOccFrom (x :: seen) xs

def firstOcc {α} [DecidableEq α] (xs : List α) : List Bool := firstOccFrom [] xs

/-- Monitor (sequential): every delivery is told to proceed iff it is the first delivery of that
    *event* (equality of events, not of keys). -/
def holdsSeq (evs : List Event) (obs : List Bool) : Bool := obs == firstOcc evs

/-- Monitor (concurrent): per listed event (min,max) over the rounds of the number of deliveries
    told to proceed: exactly one in every round. -/
def holdsConc (evs : List Event) (obs : List (Nat × Nat)) : Bool :=
  obs.length == evs.length && obs.all (fun p => p.1 == 1 && p.2 == 1)

/-! ## Histories with a moving clock -/

/-- a delivery, or the clock advancing by some seconds -/
inductive Item
  | ev (e : Event) | adv (secs : Nat)
  deriving DecidableEq

/-- the booleans returned for the deliveries of a history, clock starting at `now` -/
def runItems (span : Nat) : Nat → Dedup → List Item → List Bool
  | _, _, [] => []
  | now, d, .adv s :: rest => runItems span (now + s) d rest
  | now, d, .ev e :: rest =>
    let r := notify span now d (cacheOf e) (cacheKey e)
    r.1 :: runItems span now r.2 rest

/-- Specification with expiry: a delivery is told to proceed iff no delivery of the same *event*
    was told to proceed within the last `span` seconds.  `acc` = (event, time it was last handled). -/
def specItems (span : Nat) : Nat → List (Event × Nat) → List Item → List Bool
  | _, _, [] => []
  | now, acc, .adv s :: rest => specItems span (now + s) acc rest
  | now, acc, .ev e :: rest =>
    let blocked := acc.any (fun p => p.1 == e && decide (now - p.2 ≤ span))
    (!blocked) :: specItems span now (if blocked then acc else (e, now) :: acc) rest

/-- Monitor for timed histories: handled exactly once per caching period, again after it. -/
def holdsItems (span : Nat) (items : List Item) (obs : List Bool) : Bool :=
  obs == specItems span 0 [] items

/-! ## Small-step concurrent semantics -/

inductive Pc
  | start | swept | checked (has : Bool) | done (r : Bool)
  deriving DecidableEq

inductive Sem | addGate | checkThenAdd
  deriving DecidableEq

structure State where
  d : Dedup
  pc : Nat → Pc

/-- thread `i` delivers `(cid i, key i)`.  One atomic action of thread `i` at clock `now`. -/
def step (sem : Sem) (span : Nat) (cid : Nat → CacheId) (key : Nat → Key)
    (s : State) (i now : Nat) : State :=
  let c := cid i
  let setPc (p : Pc) : Nat → Pc := fun j => if j = i then p else s.pc j
  match s.pc i with
  | .start => ⟨s.d.set c (sweep span now (s.d c)), setPc .swept⟩
  | .swept =>
    match sem with
    | .addGate =>
      let r := add span now (s.d c) (key i)
      ⟨s.d.set c r.2, setPc (.done r.1)⟩
    | .checkThenAdd => ⟨s.d, setPc (.checked (has (s.d c) (key i)))⟩
  | .checked h =>
    if h then ⟨s.d, setPc (.done false)⟩
    else ⟨s.d.set c (add span now (s.d c) (key i)).2, setPc (.done true)⟩
  | .done _ => s

def init : State := ⟨Dedup.empty, fun _ => .start⟩

/-- a schedule is a list of `(thread, clock reading)` -/
def run (sem : Sem) (span : Nat) (cid : Nat → CacheId) (key : Nat → Key)
    (s : State) : List (Nat × Nat) → State
  | [] => s
  | (i, now) :: rest => run sem span cid key (step sem span cid key s i now) rest

end KeepVerif.C37
