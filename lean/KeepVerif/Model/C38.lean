/-!
# C38 model: `walletRegistry` (pkg/tbtc/registry.go) and beacon `Groups` (pkg/beacon/registry)

Both registries have the same shape: a storage directory per wallet/group with one file per member
index (`Save` overwrites), a cache keyed by wallet with the signers appended in registration
order, `Archive(dir)` moving the whole directory away, and a reload that groups every stored file
by wallet. Storage is written first, the cache second.

A file / signer is `(wallet, memberIndex, keyMaterial)` with abstract naturals: the key material
token stands for the marshalled private key share (identity is checked byte-for-byte by the
harness; decoding round-trips are C19's subject).

Faults on the storage call of a step: fail before / after the write (torn), process death before /
after the write (= restart), and for the wallet registry a failing wallet-ID function.
-/
namespace KeepVerif.C38

abbrev File := Nat × Nat × Nat          -- wallet, member index, key material
abbrev Cache := List (Nat × List (Nat × Nat))

inductive Fault where
  | none | failBefore | failAfter | crashBefore | crashAfter | idFail
  deriving DecidableEq, Repr

inductive Op where
  | reg (w i s : Nat) (f : Fault)
  | arch (w : Nat) (f : Fault)
  | restart
  deriving DecidableEq, Repr

inductive Res where
  | ok | eSave | eId | eNf | eArch | crash | restarted
  deriving DecidableEq, Repr

structure St where
  disk : List File := []
  cache : Cache := []
  archive : List File := []
  deriving DecidableEq, Repr

/-- `persistence.Save(bytes, walletDir, "/membership_<i>")`: overwrite. -/
def saveFile (disk : List File) (w i s : Nat) : List File :=
  disk.filter (fun f => !(f.1 == w && f.2.1 == i)) ++ [(w, i, s)]

def hasDir (disk : List File) (w : Nat) : Bool := disk.any (·.1 == w)

def known (c : Cache) (w : Nat) : Bool := c.any (·.1 == w)

def signersOf (c : Cache) (w : Nat) : List (Nat × Nat) :=
  match c.find? (·.1 == w) with
  | some (_, l) => l
  | none => []

/-- `walletCache[key].signers = append(…, signer)` creating the entry when missing. -/
def addSigner : Cache → Nat → Nat × Nat → Cache
  | [], w, e => [(w, [e])]
  | (w', l) :: r, w, e => if w' == w then (w', l ++ [e]) :: r else (w', l) :: addSigner r w e

/-- `loadSigners` / `LoadExistingGroups`: group every stored file by wallet. -/
def load (disk : List File) : Cache :=
  disk.foldl (fun c f => addSigner c f.1 (f.2.1, f.2.2)) []

/-- `persistence.Archive(dir)` on an existing directory. -/
def moveDir (s : St) (w : Nat) : St :=
  { s with disk := s.disk.filter (·.1 != w), archive := s.archive ++ s.disk.filter (·.1 == w) }

def restartSt (s : St) : St := { s with cache := load s.disk }

/-- `wallet = true`: tbtc walletRegistry; `false`: beacon Groups. -/
def step (wallet : Bool) (s : St) : Op → St × Res
  | .reg w i sh f =>
    let written := { s with disk := saveFile s.disk w i sh }
    match f with
    | .failBefore => (s, .eSave)
    | .failAfter => (written, .eSave)
    | .crashBefore => (restartSt s, .crash)
    | .crashAfter => (restartSt written, .crash)
    | .idFail =>
      if wallet && !known s.cache w then (written, .eId)
      else ({ written with cache := addSigner s.cache w (i, sh) }, .ok)
    | .none => ({ written with cache := addSigner s.cache w (i, sh) }, .ok)
  | .arch w f =>
    if !known s.cache w then (s, if wallet then .eNf else .ok) else
    let err : Res := if wallet then .eArch else .ok
    match f with
    | .failBefore => (s, err)
    | .failAfter => if hasDir s.disk w then (moveDir s w, err) else (s, err)
    | .crashBefore => (restartSt s, .crash)
    | .crashAfter => (restartSt (if hasDir s.disk w then moveDir s w else s), .crash)
    | _ =>
      if hasDir s.disk w then
        let m := moveDir s w
        ({ m with cache := m.cache.filter (·.1 != w) }, .ok)
      else (s, err)
  | .restart => (restartSt s, .restarted)

def run (wallet : Bool) : St → List Op → List (Res × Cache)
  | _, [] => []
  | s, op :: ops =>
    let (s', r) := step wallet s op
    (r, s'.cache) :: run wallet s' ops

def finalState (wallet : Bool) : St → List Op → St
  | s, [] => s
  | s, op :: ops => finalState wallet (step wallet s op).1 ops

/-- lookup by a derived key (`walletPublicKeyHash`, `walletID`): first cache entry whose derived
    key matches. `order` is the map iteration order (a permutation of the cache). -/
def lookupBy (h : Nat → Nat) (order : Cache) (x : Nat) : Option Nat :=
  (order.find? (fun e => h e.1 == x)).map (·.1)

/-- wallets whose directory may have been moved away by an `Archive` that reported a failure
    (torn archival) since the node last loaded its cache from storage. -/
def tornStep (t : List Nat) : Op → List Nat
  | .arch w .failAfter => w :: t
  | .restart => []
  | _ => t

/-- wallets that may have a file written by a registration that reported a failure (torn save,
    failing wallet-ID function) since the node last loaded its cache from storage. -/
def tornSaveStep (t : List Nat) : Op → List Nat
  | .reg w _ _ .failAfter => w :: t
  | .reg w _ _ .idFail => w :: t
  | .restart => []
  | _ => t

/-! ## Monitor: the property on an observed trace (one `(result, snapshot)` per step).
A snapshot lists, per known wallet, its signers `(memberIndex, keyMaterial)`. -/

abbrev Snap := List (Nat × List (Nat × Nat))

def snapSigners (sn : Snap) (w : Nat) : List (Nat × Nat) :=
  match sn.find? (·.1 == w) with
  | some (_, l) => l
  | none => []

def sameSet (a b : List (Nat × Nat)) : Bool := a.all b.contains && b.all a.contains

def snapEq (a b : Snap) : Bool := [1, 2, 3, 4].all fun w => sameSet (snapSigners a w) (snapSigners b w)

/-- what must be true of a step's snapshot `cur`, given the snapshot `prev` before the step and
    the one after it (`nextRestart`) when the next step is a restart:
    a successful registration is known now and after a restart, with the same key material;
    a registration that reported a storage / wallet-ID error leaves what the node knows about that
    wallet unchanged (nothing enters memory that was not durably registered);
    a successfully archived wallet is unknown now and after a restart; a failed archival leaves
    the wallet as it was;
    a restart of a just-restarted node changes nothing. -/
def stepOk (wallet : Bool) (torn : List Nat) (op : Op) (res : Res) (prev cur : Snap)
    (nextRestart : Option Snap) : Bool :=
  match op with
  | .reg w i s _ =>
    if res == .ok then
      (snapSigners cur w).contains (i, s) &&
      (match nextRestart with | some n => (snapSigners n w).contains (i, s) | none => true)
    else if res == .eSave || res == .eId then sameSet (snapSigners cur w) (snapSigners prev w)
    else true
  | .arch w f =>
    -- an archival without any storage fault of a wallet the node knows (and whose directory was
    -- not moved away by an earlier torn archival) succeeds and forgets the wallet
    (if f == .none && !(snapSigners prev w).isEmpty && !torn.contains w then
      (snapSigners cur w).isEmpty && (!wallet || res == .ok) else true) &&
    -- an archival whose storage call failed before moving anything forgets nothing
    -- ("forgotten ⇒ archived", both registries)
    (if f == .failBefore then sameSet (snapSigners cur w) (snapSigners prev w) else true) &&
    -- (the group registry's UnregisterStaleGroups reports nothing: only the wallet registry's
    -- `nil` error says that the wallet was archived)
    (if wallet && res == .ok then
      (snapSigners cur w).isEmpty &&
      (match nextRestart with | some n => (snapSigners n w).isEmpty | none => true)
    else if wallet && (res == .eArch || res == .eNf) then
      -- a failed archival forgets nothing
      sameSet (snapSigners cur w) (snapSigners prev w)
    else true)
  | .restart =>
    match nextRestart with
    | some n => snapEq cur n
    | none => true

/-- memory refines storage, observed at a restart: every wallet the node knew right before the
    restart (and whose directory was not moved away by a torn archival) is known after it. -/
def syncOk (torn : List Nat) (cur next : Snap) : Bool :=
  [1, 2, 3, 4].all fun w =>
    torn.contains w || (snapSigners cur w).isEmpty || !(snapSigners next w).isEmpty

def holdsTrace (wallet : Bool) (torn : List Nat) (prev : Snap) : List Op → List (Res × Snap) → Bool
  | op :: (Op.restart :: ops), (r, sn) :: ((r2, sn2) :: tr) =>
    stepOk wallet torn op r prev sn (some sn2) && syncOk (tornStep torn op) sn sn2 &&
      holdsTrace wallet (tornStep torn op) sn (Op.restart :: ops) ((r2, sn2) :: tr)
  | op :: ops, (r, sn) :: tr =>
    stepOk wallet torn op r prev sn none && holdsTrace wallet (tornStep torn op) sn ops tr
  | _, _ => true

end KeepVerif.C38
