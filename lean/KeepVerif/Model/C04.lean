import KeepVerif.Gen.C04
/-!
# C04 model: `pkg/altbn128/altbn128.go` (BN254 point compression, F_p² square root, hash to G1)

Field arithmetic is over `Nat` modulo the generated constant `fieldP` (= `bn256.P`), exactly as the
Go code does it with `big.Int` + `Mod`.  `Fp2` is `altbn128.gfP2`: `x` is the real part, `y` the
imaginary part (`x + y·i`, `i² = −1`).  Points are marshalled coordinates (what `bn256` `Marshal`
produces / `Unmarshal` accepts), the point at infinity is all-zero.

The model follows the code *after* the `fix:` commit (bounded square-root search, `yParity 0 = 0`,
all-zero ⇄ infinity).  The behaviour of the code before the fix is kept as `yParityOld`,
`sqrtLoop` with arbitrary fuel (= the unbounded loop) for the counterexample theorems.

External library behaviour that is modelled here and checked by correspondence on every run:
`big.Int.ModSqrt` for `p ≡ 3 (mod 4)` (`Jacobi` = Euler criterion, root `a^((p+1)/4)`), and
`bn256.G1/G2.Unmarshal` (coordinate range, curve equation, for G2 the order-`r` subgroup check
done as a Jacobian scalar multiplication by `groupOrder`).
-/
namespace KeepVerif.C04

abbrev P : Nat := Gen.C04.fieldP
abbrev R : Nat := Gen.C04.groupOrder

/-! ## F_p -/

/-- square-and-multiply, same loop as `gfP2.pow`; the fuel is the exponent itself (it is halved
    in every step, so it always suffices). -/
def powModAux : Nat → Nat → Nat → Nat → Nat
  | 0, acc, _, _ => acc
  | f+1, acc, base, e =>
    if e = 0 then acc
    else powModAux f (if e % 2 = 1 then (acc * base) % P else acc) ((base * base) % P) (e / 2)

def powMod (a e : Nat) : Nat := powModAux e (1 % P) (a % P) e

/-- `big.Int.ModSqrt(a, P)` for `P ≡ 3 mod 4`: `none` if `a` is a non-residue (Jacobi = −1),
    `0` for `a ≡ 0`, else `a^((P+1)/4)`. -/
def modSqrt (a : Nat) : Option Nat :=
  let a := a % P
  if a = 0 then some 0
  else if powMod a ((P - 1) / 2) = 1 then some (powMod a ((P + 1) / 4))
  else none

/-- `yFromX` -/
def yFromX (x : Nat) : Option Nat := modSqrt (x * x * x + 3)

/-- `yParity` after the fix (`y.Bit(0)`). -/
def yParity (y : Nat) : Nat := y % 2

/-- `yParity` before the fix: `arr := y.Bytes(); arr[len(arr)-1] & 1` — index panic for 0. -/
def yParityOld (y : Nat) : Option Nat := if y = 0 then none else some (y % 2)

/-! ## F_p² (`gfP2`) -/

structure Fp2 where
  x : Nat
  y : Nat
deriving DecidableEq, Repr, Inhabited

namespace Fp2
def one : Fp2 := ⟨1, 0⟩
def zero : Fp2 := ⟨0, 0⟩

/-- `gfP2.multiply` -/
def mul (a b : Fp2) : Fp2 :=
  let xx := (a.x * b.x) % P
  let xy := (a.x * b.y) % P
  let yx := (a.y * b.x) % P
  let yy := (a.y * b.y) % P
  ⟨(xx + (P - yy)) % P, (xy + yx) % P⟩

/-- `gfP2.add` -/
def add (a b : Fp2) : Fp2 := ⟨(a.x + b.x) % P, (a.y + b.y) % P⟩

def sub (a b : Fp2) : Fp2 := ⟨(a.x + (P - b.x % P)) % P, (a.y + (P - b.y % P)) % P⟩
def neg (a : Fp2) : Fp2 := ⟨(P - a.x % P) % P, (P - a.y % P) % P⟩
def isZero (a : Fp2) : Bool := a.x == 0 && a.y == 0

/-- `gfP2.pow` -/
def powAux : Nat → Fp2 → Fp2 → Nat → Fp2
  | 0, acc, _, _ => acc
  | f+1, acc, base, e =>
    if e = 0 then acc
    else powAux f (if e % 2 = 1 then mul acc base else acc) (mul base base) (e / 2)

def pow (base : Fp2) (e : Nat) : Fp2 := powAux e one base e
end Fp2

def twistB : Fp2 := ⟨Gen.C04.twistBx, Gen.C04.twistBy⟩
def hexRoot : Fp2 := ⟨Gen.C04.hexRootX, Gen.C04.hexRootY⟩
abbrev sqrtExp : Nat := Gen.C04.sqrtExp

/-- `x2y(x, y)`: `y² == x` (component-wise comparison with `x` as given). -/
def x2y (x y : Fp2) : Bool := Fp2.pow y 2 == x

/-- The search loop of `sqrtGfP2` with `fuel` iterations: `none` = fuel exhausted.
    The code before the fix is `∀ fuel` (no bound); after the fix `fuel = 16`. -/
def sqrtLoop : Nat → Fp2 → Fp2 → Option Fp2
  | 0, _, _ => none
  | f+1, x, y => if x2y x y then some y else sqrtLoop f x (Fp2.mul y hexRoot)

/-- `sqrtGfP2` (fixed: at most 16 candidates). -/
def sqrtGfP2 (x : Fp2) : Option Fp2 := sqrtLoop 16 x (Fp2.pow x sqrtExp)

/-! ## Results -/

inductive Err | nosqrt | exceeds | equals | malformed
deriving DecidableEq, Repr

def Err.toString : Err → String
  | .nosqrt => "err:nosqrt" | .exceeds => "err:exceeds" | .equals => "err:equals"
  | .malformed => "err:malformed"

/-- `gfP.Unmarshal` range check. -/
def coordCheck (v : Nat) : Option Err :=
  if v < P then none else if v = P then some .equals else some .exceeds

def firstErr : List Nat → Option Err
  | [] => none
  | v :: vs => match coordCheck v with
    | some e => some e
    | none => firstErr vs

/-! ## G1 -/

def two255 : Nat := 2 ^ 255

/-- set bit 255 of a 256-bit value (`rt[0] |= mask`). -/
def orTop (v parity : Nat) : Nat :=
  if parity = 1 ∧ (v / two255) % 2 = 0 then v + two255 else v

/-- `G1Point.Compress` on marshalled coordinates (infinity = (0,0)). -/
def compressG1 (x y : Nat) : Nat := orTop x (yParity y)

/-- `curvePoint.IsOnCurve` for an affine point. -/
def onCurveG1 (x y : Nat) : Bool := (y * y) % P == (x * x * x + 3) % P

/-- `G1FromInts` → `G1.Unmarshal` (the length check cannot fail for values below 2^256). -/
def g1FromInts (x y : Nat) : Except Err (Nat × Nat) :=
  match firstErr [x, y] with
  | some e => .error e
  | none =>
    if x = 0 ∧ y = 0 then .ok (0, 0)
    else if onCurveG1 x y then .ok (x, y) else .error .malformed

/-- `DecompressToG1` on a 32-byte big-endian value `m < 2^256`. -/
def decompressG1 (m : Nat) : Except Err (Nat × Nat) :=
  if m = 0 then g1FromInts 0 0 else
  let x := m % two255
  match yFromX x with
  | none => .error .nosqrt
  | some y =>
    let y := if (m / two255) % 2 ≠ yParity y then P - y else y
    g1FromInts x y

/-- `G1HashToPoint` given `h = SHA-256(m)` as a number; fuel-bounded try-and-increment
    (`none` = no residue within `fuel` increments). Returns the increment count too. -/
def hashLoop : Nat → Nat → Nat → Option (Nat × Nat × Nat)
  | 0, _, _ => none
  | f+1, x, k =>
    match yFromX x with
    | some y => some (x, y, k)
    | none => hashLoop f (x + 1) (k + 1)

def hashToG1 (h : Nat) (fuel : Nat := 512) : Option (Nat × Nat × Nat) := hashLoop fuel (h % P) 0

/-! ## G2 -/

/-- affine twist equation `y² = x³ + twistB`. -/
def onTwist (x y : Fp2) : Bool :=
  Fp2.mul y y == Fp2.add (Fp2.mul (Fp2.mul x x) x) twistB

/-- Jacobian point on the twist. -/
structure Jac where
  x : Fp2
  y : Fp2
  z : Fp2

namespace Jac
open Fp2
def inf : Jac := ⟨one, one, zero⟩
def dbl2 (a : Fp2) : Fp2 := add a a

def double (p : Jac) : Jac :=
  if p.z.isZero then inf else
  let a := mul p.x p.x
  let b := mul p.y p.y
  let c := mul b b
  let xb := add p.x b
  let d := dbl2 (sub (sub (mul xb xb) a) c)
  let e := add (dbl2 a) a
  let f := mul e e
  let x3 := sub f (dbl2 d)
  let y3 := sub (mul e (sub d x3)) (dbl2 (dbl2 (dbl2 c)))
  let z3 := dbl2 (mul p.y p.z)
  ⟨x3, y3, z3⟩

def addJ (p q : Jac) : Jac :=
  if p.z.isZero then q else if q.z.isZero then p else
  let z1z1 := mul p.z p.z
  let z2z2 := mul q.z q.z
  let u1 := mul p.x z2z2
  let u2 := mul q.x z1z1
  let s1 := mul p.y (mul q.z z2z2)
  let s2 := mul q.y (mul p.z z1z1)
  if u1 = u2 then (if s1 = s2 then double p else inf) else
  let h := sub u2 u1
  let r := sub s2 s1
  let h2 := mul h h
  let h3 := mul h h2
  let v := mul u1 h2
  let x3 := sub (sub (mul r r) h3) (dbl2 v)
  let y3 := sub (mul r (sub v x3)) (mul s1 h3)
  let z3 := mul h (mul p.z q.z)
  ⟨x3, y3, z3⟩

/-- double-and-add, least significant bit first; fuel = the scalar (halved each step). -/
def mulAux : Nat → Jac → Jac → Nat → Jac
  | 0, acc, _, _ => acc
  | f+1, acc, base, k =>
    if k = 0 then acc
    else mulAux f (if k % 2 = 1 then addJ acc base else acc) (double base) (k / 2)

def smul (k : Nat) (p : Jac) : Jac := mulAux k inf p k
end Jac

/-- `twistPoint.IsOnCurve`: on the twist and killed by the group order. -/
def inG2 (x y : Fp2) : Bool :=
  onTwist x y && (Jac.smul R ⟨x, y, Fp2.one⟩).z.isZero

/-- `G2FromInts` → `G2.Unmarshal`; marshalled order is x.imag, x.real, y.imag, y.real. -/
def g2FromInts (x y : Fp2) : Except Err (Fp2 × Fp2) :=
  match firstErr [x.y, x.x, y.y, y.x] with
  | some e => .error e
  | none =>
    if x.isZero && y.isZero then .ok (x, y)
    else if inG2 x y then .ok (x, y) else .error .malformed

/-- `G2Point.Compress` on marshalled coordinates: (x.imag with the parity bit of y.imag, x.real). -/
def compressG2 (x y : Fp2) : Nat × Nat := (orTop x.y (yParity y.y), x.x)

/-- `DecompressToG2` on 64 bytes given as two 256-bit values `(hi, lo)` = `(m[0:32], m[32:64])`,
    with the square-root routine as a parameter (theorems are stated for every `sqrt` with the
    properties proved of `sqrtGfP2`). -/
def decompressG2With (sqrt : Fp2 → Option Fp2) (hi lo : Nat) : Except Err (Fp2 × Fp2) :=
  if hi = 0 ∧ lo = 0 then g2FromInts Fp2.zero Fp2.zero else
  let x : Fp2 := ⟨lo, hi % two255⟩
  let y2 := Fp2.add (Fp2.pow x 3) twistB
  match sqrt y2 with
  | none => .error .nosqrt
  | some y =>
    let y : Fp2 := if (hi / two255) % 2 ≠ yParity y.y then ⟨P - y.x, P - y.y⟩ else y
    g2FromInts x y

/-- `DecompressToG2` (fixed code: `sqrtGfP2` with the 16-step bound). -/
def decompressG2 (hi lo : Nat) : Except Err (Fp2 × Fp2) := decompressG2With sqrtGfP2 hi lo

/-! ## Monitor -/

/-- Buffer discipline (stated independently of the model): the functions are functions of the
    byte content only and do not modify their input. The harness calls each of them on fresh
    copies, twice on one buffer, and on a buffer reused for different content, and writes
    `MUTATED-INPUT`, `ALIASED` or `NONDET` into the observation when that fails. -/
def disciplineOk (obs : String) : Bool :=
  (obs.splitOn "MUTATED-INPUT").length == 1 && (obs.splitOn "ALIASED").length == 1
    && (obs.splitOn "NONDET").length == 1

/-- What the implementation was observed to do on one case. -/
inductive Obs
  | point1 (x y : Nat)            -- a G1 point (marshalled coordinates)
  | point2 (x y : Fp2)            -- a G2 point
  | err (e : String)              -- an error return
  | bad                           -- HANG / PANIC / unparsable

/-- Decompression of arbitrary bytes: terminates (no hang/panic) with an error or with a valid
    point that compresses back to the input. -/
def holdsD1 (m : Nat) : Obs → Bool
  | .err _ => true
  | .point1 x y =>
    (x == 0 && y == 0 && m == 0) ||
    (decide (x < P) && decide (y < P) && onCurveG1 x y && compressG1 x y == m)
  | _ => false

def holdsD2 (hi lo : Nat) : Obs → Bool
  | .err _ => true
  | .point2 x y =>
    (x.isZero && y.isZero && hi == 0 && lo == 0) ||
    (decide (x.x < P) && decide (x.y < P) && decide (y.x < P) && decide (y.y < P)
      && inG2 x y && compressG2 x y == (hi, lo))
  | _ => false

/-- Round trip: decompressing the compressed point gives back the point. -/
def holdsRt1 (x y : Nat) : Obs → Bool
  | .point1 x' y' => x' == x && y' == y
  | _ => false

def holdsRt2 (x y : Fp2) : Obs → Bool
  | .point2 x' y' => x' == x && y' == y
  | _ => false

/-- Hash to G1: a finite point on the curve with reduced coordinates. -/
def holdsHash : Obs → Bool
  | .point1 x y => decide (x < P) && decide (y < P) && onCurveG1 x y && !(x == 0 && y == 0)
  | _ => false

end KeepVerif.C04
