import KeepVerif.Gen.C36
/-!
# C36 model: `heartbeatAction.execute` and `heartbeatFailureCounter` (pkg/tbtc/heartbeat.go)

One `execute` call is one `step` on the per-wallet failure counters.  Everything outside the
function (chain answers, the signing executor's result, whether the claim executor fails) is the
*outcome* of that heartbeat and a parameter of the step.  Histories are lists of
`(wallet, outcome)`; the wallet is any `Nat` (the map key is the wallet public key).
-/
namespace KeepVerif.C36

abbrev minActive : Nat := Gen.C36.minimumActiveMembers
abbrev threshold : Nat := Gen.C36.consecutiveFailureThreshold

inductive Outcome
  /-- `isOperatorUnstaking` returned an error (provider lookup / not registered / stake lookup) -/
  | unstakingErr
  /-- eligible stake is 0 -/
  | unstaking
  /-- `ValidateHeartbeatProposal` returned an error -/
  | invalidProposal
  /-- `expiryBlock < heartbeatInactivityClaimValidityBlocks` -/
  | badExpiry
  /-- the signing executor returned an error -/
  | signErr
  /-- signing succeeded: `len(activityReport.activeMembers)`, `activityReport.inactiveMembers`,
      and whether `claimInactivity` (if called) returns an error -/
  | signed (active : Nat) (inactive : List Nat) (claimFails : Bool)
  deriving DecidableEq, Repr

inductive Err
  | ok | eUnstake | eInvalid | eExpiry | eSign | eNoInactive | eClaim
  deriving DecidableEq, Repr

/-- a `claimInactivity` invocation: the inactive members passed and `heartbeatFailed` -/
abbrev Claim := List Nat × Bool

/-- `heartbeatFailureCounter`: `counters[walletKey]` (missing = 0) -/
abbrev Counters := Nat → Nat

def Counters.set (c : Counters) (w v : Nat) : Counters := fun w' => if w' = w then v else c w'

structure StepResult where
  err : Err
  claim : Option Claim
  counters : Counters

/-- `heartbeatAction.execute` for wallet `w` -/
def step (c : Counters) (w : Nat) : Outcome → StepResult
  | .unstakingErr => ⟨.eUnstake, none, c⟩
  | .unstaking => ⟨.ok, none, c⟩
  | .invalidProposal => ⟨.eInvalid, none, c⟩
  | .badExpiry => ⟨.eExpiry, none, c⟩
  | .signErr => ⟨.eSign, none, c⟩
  | .signed active inactive claimFails =>
    if active ≥ minActive then
      ⟨.ok, none, c.set w 0⟩                         -- failureCounter.reset
    else
      let c' := c.set w (c w + 1)                     -- failureCounter.increment
      if c' w < threshold then ⟨.ok, none, c'⟩
      else if inactive.isEmpty then ⟨.eNoInactive, none, c'⟩
      else ⟨if claimFails then .eClaim else .ok, some (inactive, true), c'⟩

/-- observation of one step: error class, claim, counter of that wallet afterwards -/
abbrev Obs := Err × Option Claim × Nat

def runFrom (c : Counters) : List (Nat × Outcome) → List Obs
  | [] => []
  | (w, o) :: rest =>
    let r := step c w o
    (r.err, r.claim, r.counters w) :: runFrom r.counters rest

/-- a whole history on a fresh counter (`newHeartbeatFailureCounter`) -/
def run (h : List (Nat × Outcome)) : List Obs := runFrom (fun _ => 0) h

/-- the counters after a history -/
def finalFrom (c : Counters) : List (Nat × Outcome) → Counters
  | [] => c
  | (w, o) :: rest => finalFrom (step c w o).counters rest

/-! ## Specification side -/

/-- a heartbeat whose signing succeeded with fewer active members than required -/
def isLow : Outcome → Bool
  | .signed a _ _ => decide (a < minActive)
  | _ => false

/-- a heartbeat whose signing succeeded with enough active members -/
def isSuccess : Outcome → Bool
  | .signed a _ _ => decide (a ≥ minActive)
  | _ => false

/-- length of the current run of low heartbeats of wallet `w`, reading the history backwards
    (`rev` = most recent first): other wallets and non-counting outcomes (errors, unstaking,
    invalid proposal) are skipped, a successful heartbeat ends the run. -/
def lowRunRev (w : Nat) : List (Nat × Outcome) → Nat
  | [] => 0
  | (w', o) :: rest =>
    if w' ≠ w then lowRunRev w rest
    else if isLow o then lowRunRev w rest + 1
    else if isSuccess o then 0
    else lowRunRev w rest

def lowRun (w : Nat) (h : List (Nat × Outcome)) : Nat := lowRunRev w h.reverse

def inactiveOf : Outcome → List Nat
  | .signed _ i _ => i
  | _ => []

/-- what the property allows at the last step of history `h ++ [(w, o)]`: a claim iff the step is
    a low heartbeat completing a run of at least `threshold` low heartbeats of that wallet (and
    the report names someone); the claim names exactly the report's inactive members and is
    marked as a heartbeat failure. -/
def expectedClaim (h : List (Nat × Outcome)) (w : Nat) (o : Outcome) : Option Claim :=
  if isLow o && decide (lowRun w (h ++ [(w, o)]) ≥ threshold) && !(inactiveOf o).isEmpty
  then some (inactiveOf o, true) else none

/-- Monitor: every step's claim is the expected one.  `pre` = history before `h`. -/
def holdsFrom (pre : List (Nat × Outcome)) : List (Nat × Outcome) → List Obs → Bool
  | [], [] => true
  | (w, o) :: rest, (_, claim, cnt) :: obs =>
    (claim == expectedClaim pre w o) && (cnt == lowRun w (pre ++ [(w, o)])) &&
      holdsFrom (pre ++ [(w, o)]) rest obs
  | _, _ => false

def holds (h : List (Nat × Outcome)) (obs : List Obs) : Bool := holdsFrom [] h obs

end KeepVerif.C36
