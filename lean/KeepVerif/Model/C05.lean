import KeepVerif.Gen.C05
/-!
# C05 model: `decideMemberFate`, `waitForDkgResultEvent`, `resolveGroupOperators`
(pkg/beacon/dkg/dkg.go)

Keys are opaque byte strings (`String` tokens that the harness maps to pairwise distinct byte
strings); member indices are `uint8` values as naturals; operator addresses are strings.
`ev = none` means the timeout block won the `select` in `waitForDkgResultEvent`.
-/
namespace KeepVerif.C05

inductive Err | timeout | nokey | key | misbehaved | ops
  deriving DecidableEq, Repr

structure Event where
  key : String
  misbehaved : List Nat
  deriving DecidableEq, Repr

/-- block awaited by `waitForDkgResultEvent` -/
def timeoutBlock (start n step : Nat) : Nat := start + Gen.C05.prePublicationBlocks + n * step

/-- `decideMemberFate`: the operating member indexes according to the accepted result. -/
def decideMemberFate (me : Nat) (myKey : Option String) (members : List Nat) (ev : Option Event) :
    Except Err (List Nat) :=
  match ev with
  | none => .error .timeout
  | some e =>
    match myKey with
    | none => .error .nokey
    | some k =>
      if k ≠ e.key then .error .key
      else if me ∈ e.misbehaved then .error .misbehaved
      else .ok (members.filter (fun m => !e.misbehaved.contains m))

/-- `group.Group` after GJKR: the members and the node's LOCAL inactive / disqualified marks -/
structure Group where
  members : List Nat
  inactive : List Nat
  disqualified : List Nat
  deriving DecidableEq, Repr

/-- `Group.OperatingMemberIndexes()` — the local view (NOT what the fate decision may use) -/
def Group.operating (g : Group) : List Nat :=
  g.members.filter (fun m => !g.inactive.contains m && !g.disqualified.contains m)

/-- `decideMemberFate` on the real argument: it reads `Group.MemberIndexes()` only. -/
def decideMemberFateG (me : Nat) (myKey : Option String) (g : Group) (ev : Option Event) :
    Except Err (List Nat) :=
  decideMemberFate me myKey g.members ev

def insertSorted (a : Nat) : List Nat → List Nat
  | [] => [a]
  | b :: rest => if a ≤ b then a :: b :: rest else b :: insertSorted a rest

/-- `sort.Slice(ids, <)` (any correct sort gives the same list of naturals) -/
def sortIds (ids : List Nat) : List Nat := ids.foldr insertSorted []

inductive Res
  | ok (ops : List String)
  | err (e : Err)
  | panicIndex
  deriving DecidableEq, Repr

/-- `selectedOperators[operatingMemberID-1]` with `uint8` arithmetic (`0 - 1 = 255`);
    `none` = index out of range (run-time panic). -/
def pick (sel : List String) (id : Nat) : Option String := sel[(id + 255) % 256]?

/-- the indexing loop; `none` as soon as one index is out of range -/
def pickAll (sel : List String) : List Nat → Option (List String)
  | [] => some []
  | id :: rest =>
    match pick sel id, pickAll sel rest with
    | some a, some as => some (a :: as)
    | _, _ => none

/-- `resolveGroupOperators` -/
def resolveGroupOperators (sel : List String) (ids : List Nat) (groupSize honest : Nat) : Res :=
  if sel.length ≠ groupSize ∨ ids.length < honest then .err .ops
  else
    match pickAll sel (sortIds ids) with
    | some ops => .ok ops
    | none => .panicIndex

def members (n : Nat) : List Nat := List.range' 1 n

/-- the failure path of `ExecuteDKG`: fate, then the operator list -/
def fateThenOperators (me n honest : Nat) (myKey : Option String) (ev : Option Event)
    (sel : List String) : Res :=
  match decideMemberFate me myKey (members n) ev with
  | .error e => .err e
  | .ok ids => resolveGroupOperators sel ids n honest

/-- the same with the member's local IA / DQ marks on `gjkrResult.Group` -/
def fateThenOperatorsG (me n honest : Nat) (myKey : Option String) (ev : Option Event)
    (sel : List String) (localIA localDQ : List Nat) : Res :=
  match decideMemberFateG me myKey ⟨members n, localIA, localDQ⟩ ev with
  | .error e => .err e
  | .ok ids => resolveGroupOperators sel ids n honest

/-- the tail of `ExecuteDKG` after GJKR: `operatingMemberIndexes` starts as the member's local
    operating view; when the publication failed it is REPLACED by the fate decision (or the
    member leaves with the fate's error); then the operators are resolved. -/
def executeDkgTail (publishOk : Bool) (me n honest : Nat) (myKey : Option String)
    (ev : Option Event) (sel : List String) (localIA localDQ : List Nat) : Res :=
  let g : Group := ⟨members n, localIA, localDQ⟩
  if publishOk then resolveGroupOperators sel g.operating n honest
  else
    match decideMemberFateG me myKey g ev with
    | .error e => .err e
    | .ok ids => resolveGroupOperators sel ids n honest

/-! ## Monitor: the property stated directly (no sort, no intermediate id list) -/

/-- selected operators of the non-misbehaving members, in member-index order -/
def specOperators (n : Nat) (misb : List Nat) (sel : List String) : List String :=
  (members n).filterMap (fun i => if misb.contains i then none else sel[i - 1]?)

/-- may the member keep its membership? -/
def mayStay (me : Nat) (myKey : Option String) (ev : Option Event) : Bool :=
  match ev, myKey with
  | some e, some k => k == e.key && !e.misbehaved.contains me
  | _, _ => false

/-- `holds`: membership is kept only if the chain decided so, and then the operator list is
    exactly `specOperators`; a member that may stay is not turned away except for a group that
    fell below the honest threshold / a wrong-sized selection (`err ops`). -/
def holds (me n honest : Nat) (myKey : Option String) (ev : Option Event) (sel : List String)
    (r : Res) : Bool :=
  match r with
  | .ok ops => mayStay me myKey ev &&
      (match ev with | some e => decide (ops = specOperators n e.misbehaved sel) | none => false) &&
      decide (honest ≤ ops.length)
  | .err .ops => mayStay me myKey ev
  | .err _ => !mayStay me myKey ev
  | .panicIndex => false

end KeepVerif.C05
