import KeepVerif.DriverLib
import KeepVerif.Model.C12
open KeepVerif
open KeepVerif.C12

def stepOf : String → Option Step
  | "gjkr" => some .gjkr | "bres" => some .beaconResult | "tdkg" => some .tecdsaDkg
  | "tsig" => some .tecdsaSigning | "tres" => some .tecdsaResult | "inact" => some .inactivity
  | "ann" => some .announcer | "coord" => some .follower | "done" => some .done
  | _ => none

/-- state/message kinds the hooks know (a typed `switch` in gjkr: only matching pairs) -/
def validVariant (step v : String) : Bool :=
  match step with
  | "gjkr" => ["epk/epk", "commit/shares", "commit/commitments", "accuse/accuse", "points/points",
      "paccuse/paccuse", "reveal/reveal", "accuse-init/accuse", "paccuse-init/paccuse"].contains v
  | "tdkg" =>
    match v.splitOn "/" with
    | [s, m] => ["epk", "symkey", "tss1", "tss2", "tss3", "final"].contains s &&
        ["epk", "tss1", "tss2", "tss3", "final"].contains m
    | _ => false
  | "tsig" =>
    match v.splitOn "/" with
    | [s, m] => ["epk", "symkey", "tss1", "tss2", "tss3", "tss4", "tss5", "tss6", "tss7", "tss8", "tss9"].contains s &&
        ["epk", "tss1", "tss5", "tss9"].contains m
    | _ => false
  | _ => true

def parseMsg (s : String) : Option Msg :=
  match (s.splitOn ":").mapM String.toNat? with
  | some [idx, nk, mk, se, a1, a2, act, sg] =>
    if idx ≤ 255 then
      some { idx := UInt8.ofNat idx, netKey := nk, msgKey := mk, session := se, aux1 := a1, aux2 := a2,
             action := act, hasSig := sg != 0 }
    else none
  | _ => none

def u8s (xs : List Nat) : Option (List UInt8) :=
  if xs.all (· ≤ 255) then some (xs.map UInt8.ofNat) else none

structure Case where
  step : String
  ctx : Ctx
  leader : Nat
  msgs : List Msg

def parseCase (line : String) : Option Case :=
  match splitWs line with
  | [step, variant, ops, gs, ia, dq, selfs, sess, a1, a2, leader, allowed, msgs] => do
    let ops ← parseNats ops
    let gs ← gs.toNat?
    let ia ← (← parseNats ia) |> u8s
    let dq ← (← parseNats dq) |> u8s
    let selfs ← (← parseNats selfs) |> u8s
    let sess ← sess.toNat?
    let a1 ← a1.toNat?
    let a2 ← a2.toNat?
    let leader ← leader.toNat?
    let allowed ← parseNats allowed
    let msgs ← (splitList msgs).mapM parseMsg
    if gs > 400 || ops.length > 400 then none
    else if !(step == "mv" || step == "annh" || step == "coordh" || (stepOf step).isSome) then none
    else if !validVariant step variant then none
    else
      let leaderID := (firstSeat ops leader).getD 0
      -- gjkr accusation states driven through Initiate: `allowed` = senders of the previous phase
      let initiated := step == "gjkr" && (variant == "accuse-init/accuse" || variant == "paccuse-init/paccuse")
      let grp : Group := ⟨gs, ia, dq⟩
      let grp := if initiated then markInactive grp (selfs.headD 0) allowed else grp
      some { step := step, leader := leader, msgs := msgs,
             ctx := { ops := ops, group := grp, selfs := selfs, session := sess, aux1 := a1, aux2 := a2,
                      leaderID := leaderID, allowed := allowed, doneSigners := [] } }
  | _ => none

def showOutcome : Outcome → String
  | .stored => "stored" | .dropped => "dropped"
  | .faultImpersonation => "fault-imp" | .faultMistake => "fault-mistake"

def parseOutcome : String → Option Outcome
  | "stored" => some .stored | "dropped" => some .dropped
  | "fault-imp" => some .faultImpersonation | "fault-mistake" => some .faultMistake
  | _ => none

def showTrace (t : List (Outcome × Nat)) : String :=
  showList (t.map fun e => if e.1 == .stored then s!"stored@{e.2}" else showOutcome e.1)

/-- observed follower run: faults in order, optionally a final `stored@pos` -/
def parseTrace (obs : String) : Option (List Outcome × Option Nat) :=
  let toks := splitList obs
  let rec go : List String → List Outcome → Option (List Outcome × Option Nat)
    | [], acc => some (acc.reverse, none)
    | [t], acc =>
      if t.startsWith "stored@" then (t.drop 7).toString.toNat?.map (fun p => (acc.reverse, some p))
      else (parseOutcome t).bind fun o => if o == .stored || o == .dropped then none else some ((o :: acc).reverse, none)
    | t :: rest, acc =>
      (parseOutcome t).bind fun o => if o == .stored || o == .dropped then none else go rest (o :: acc)
  go toks []

/-- source-level observation of the retry loops' session identifier (see harness `callsite`) -/
def isCallsite (line : String) : Bool :=
  match splitWs line with
  | ["callsite", w] => w == "signing" || w == "dkg"
  | _ => false

/-- `sessions <m1,m2,..> <attempts>`: the signing retry loop run for real for every message -/
def parseSessions (line : String) : Option (List Nat × Nat) :=
  match splitWs line with
  | ["sessions", ms, k] => do
    let ms ← parseNats ms
    let k ← k.toNat?
    if ms.isEmpty || ms.length > 4 || ms.any (· == 0) || ms.any (· ≥ 2^63) || k < 1 || k > 5 then none
    else some (ms, k)
  | _ => none

def nodupStrings : List String → Bool
  | [] => true
  | x :: xs => !xs.contains x && nodupStrings xs

def model (line : String) : String :=
  if isCallsite line then "session-per-attempt" else
  if let some (ms, k) := parseSessions line then
    showList (ms.flatMap fun m => (List.range k).map fun a => sessionId m (a + 1)) else
  match parseCase line with
  | none => "bad-op"
  | some c =>
    if c.step == "mv" then
      showList (c.msgs.map fun m => showOutcome (ofBool (isValidMembership c.ctx.ops m.idx m.netKey)))
    else if c.step == "annh" then
      showList ((readyList id c.ctx c.msgs).map (·.toNat))
    else if c.step == "coordh" then
      if (firstSeat c.ctx.ops c.leader).isNone then "SKIP"
      else showTrace (followerTrace id c.ctx c.msgs 0)
    else match stepOf c.step with
      | none => "bad-op"
      | some s =>
        if s = .follower ∧ (firstSeat c.ctx.ops c.leader).isNone then "SKIP"
        else showList ((run id s c.ctx c.msgs).map showOutcome)

def monitor (op obs : String) : String :=
  if let some (ms, k) := parseSessions op then
    -- model-independent: one session id per (message, attempt), pairwise distinct
    let ids := splitList obs
    (if ids.length == ms.length * k && nodupStrings ids && !obs.startsWith "err" then "ok"
     else "FAIL attempts-share-one-session-id")
  else
  if isCallsite op then
    (if obs == "session-per-attempt" then "ok" else "FAIL attempts-share-one-session-id")
  else
  match parseCase op with
  | none => if obs == "bad-op" then "ok" else "FAIL bad-op"
  | some c =>
    if c.step == "annh" then
      match (parseNats obs).bind u8s with
      | none => "FAIL unexpected-observation"
      | some ready =>
        if holdsReady id c.ctx c.msgs ready then "ok" else "FAIL ready-index-not-announced-by-its-holder"
    else if c.step == "coordh" then
      match parseTrace obs with
      | none => "FAIL unexpected-observation"
      | some (faults, acc) =>
        if holdsTrace id c.ctx c.msgs faults acc then "ok" else "FAIL follower-acted-on-uncontrolled-sender"
    else
    match (splitList obs).mapM parseOutcome with
    | none => "FAIL unexpected-observation"
    | some os =>
      if os.length != c.msgs.length then "FAIL outcome-count"
      else if c.step == "mv" then
        if (c.msgs.zip os).all (fun (m, o) => holdsMv c.ctx.ops m.idx m.netKey (o == .stored) &&
            (o == .stored || o == .dropped))
        then "ok" else "FAIL validator-accepted-uncontrolled-index"
      else match stepOf c.step with
        | none => "FAIL bad-op"
        | some s =>
          if holdsRun id s c.ctx c.msgs os then "ok" else "FAIL acted-on-message-of-uncontrolled-sender"

def main (args : List String) : IO UInt32 := driverMain model monitor args
