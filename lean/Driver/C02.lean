import KeepVerif.DriverLib
import KeepVerif.Model.C02
import KeepVerif.Model.C01Drv
open KeepVerif
open KeepVerif.C01

namespace C02Drv
open KeepVerif.C02

def flagStr (q : Nat) (sec : Option Nat) (fin : List St) (st : St) : String :=
  let o := obsOf q sec fin st
  let miss := pkMissing fin st
  let cs := (o.pkFlags.zip miss).map (fun (f, m) => if m then 'x' else if f then '1' else '0')
  if cs.isEmpty then "-" else String.ofList cs

def obsC02 (cfg : Cfg) : String :=
  let hs := honestStates cfg
  let fin := hs.filter (fun st => st.status = .ok)
  let sec := secretOf cfg.q cfg.t fin
  let toks := hs.map (fun st =>
    if st.status ≠ .ok then s!"{st.id}/{C01Drv.statusStr st.status}" else
    let gk := match sec with
      | none => "-"
      | some _ => if (obsOf cfg.q sec fin st).gkFlag then "1" else "0"
    s!"{st.id}/{st.share}/{flagStr cfg.q sec fin st}/{gk}")
  let x := match sec with
    | some x => s!"X={x}"
    | none => "X=-"
  " ".intercalate (toks ++ [x])

/-- parse one member token; `none` for members that did not finish -/
def parseTok (tok : String) : Option (Option Obs) :=
  match tok.splitOn "/" with
  | [i, _status] => if i.toNat?.isSome then some none else none
  | [i, sh, pk, gk] =>
    match i.toNat?, sh.toNat? with
    | some i, some sh =>
      some (some ⟨i, sh, if pk = "-" then [] else pk.toList.map (· = '1'), gk = "1"⟩)
    | _, _ => none
  | _ => none

end C02Drv

open C02Drv

def modelC02 (line : String) : String :=
  match C01Drv.parseOp true line with
  | some cfg => obsC02 { cfg with q := Gen.C02.order }
  | none => "bad-op"

def monitorC02 (op obs : String) : String :=
  match C01Drv.parseOp true op with
  | none => if obs = "bad-op" then "ok" else "FAIL bad-op"
  | some cfg =>
    let toks := splitWs obs
    match toks.getLast? with
    | none => "FAIL unparsable-observation"
    | some xt =>
      match (toks.dropLast).mapM parseTok with
      | none => "FAIL unparsable-observation"
      | some os =>
        let fin := os.filterMap id
        if (corrupt cfg).eraseDups.length > cfg.t then "ok" else
        if xt = "X=-" then (if fin.length ≥ cfg.t + 1 then "FAIL no-secret" else "ok") else
        match ((xt.drop 2).toString).toNat? with
        | none => "FAIL unparsable-observation"
        | some x =>
          if KeepVerif.C02.holds Gen.C02.order cfg.t x fin then "ok" else "FAIL shares-inconsistent-with-group-key"

def main (args : List String) : IO UInt32 := driverMain modelC02 monitorC02 args
