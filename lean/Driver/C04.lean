import KeepVerif.DriverLib
import KeepVerif.Model.C04
open KeepVerif KeepVerif.C04

/-- fixed-width lower-case hex (big endian), `w` hex digits. -/
def hexW (w n : Nat) : String :=
  let rec go : Nat → Nat → List Char → List Char
    | 0, _, acc => acc
    | k+1, n, acc => go k (n / 16) (hexNibble (n % 16) :: acc)
  String.ofList (go w n [])

/-- parse a hex string of exactly `w` digits. -/
def hexExact (w : Nat) (s : String) : Option Nat :=
  if s.length = w then parseHexNat s else none

/-- split a hex string into `k` chunks of 64 digits. -/
def chunks64 (s : String) (k : Nat) : Option (List Nat) :=
  if s.length ≠ 64 * k then none else
  let cs := s.toList
  (List.range k).mapM fun i => parseHexNat (String.ofList ((cs.drop (64 * i)).take 64))

def showG1 : Except Err (Nat × Nat) → String
  | .ok (x, y) => hexW 64 x ++ hexW 64 y
  | .error e => e.toString

def showG2 : Except Err (Fp2 × Fp2) → String
  | .ok (x, y) => hexW 64 x.y ++ hexW 64 x.x ++ hexW 64 y.y ++ hexW 64 y.x
  | .error e => e.toString

def model (line : String) : String :=
  match splitWs line with
  | ["g1", pt] =>
    match chunks64 pt 2 with
    | some [x, y] =>
      let c := compressG1 x y
      "c=" ++ hexW 64 c ++ " d=" ++ showG1 (decompressG1 c)
    | _ => "bad-op"
  | ["g2", pt] =>
    match chunks64 pt 4 with
    | some [xi, xr, yi, yr] =>
      let c := compressG2 ⟨xr, xi⟩ ⟨yr, yi⟩
      "c=" ++ hexW 64 c.1 ++ hexW 64 c.2 ++ " d=" ++ showG2 (decompressG2 c.1 c.2)
    | _ => "bad-op"
  | ["d1", m] =>
    match hexExact 64 m with
    | some m => showG1 (decompressG1 m)
    | none => "bad-op"
  | ["d2", m] =>
    match chunks64 m 2 with
    | some [hi, lo] => showG2 (decompressG2 hi lo)
    | _ => "bad-op"
  | ["hash", _, h] =>
    match hexExact 64 h with
    | some h =>
      match hashToG1 h with
      | some (x, y, _) => showG1 (g1FromInts x y)
      | none => "FUEL"
    | none => "bad-op"
  | ["fmul", a, b, c, d] =>
    match hexExact 64 a, hexExact 64 b, hexExact 64 c, hexExact 64 d with
    | some a, some b, some c, some d =>
      let r := Fp2.mul ⟨a, b⟩ ⟨c, d⟩
      hexW 64 r.x ++ " " ++ hexW 64 r.y
    | _, _, _, _ => "bad-op"
  | ["fpow", a, b, e] =>
    match hexExact 64 a, hexExact 64 b, parseHexNat e with
    | some a, some b, some e =>
      let r := Fp2.pow ⟨a, b⟩ e
      hexW 64 r.x ++ " " ++ hexW 64 r.y
    | _, _, _ => "bad-op"
  | _ => "bad-op"

def parseObs1 (s : String) : Obs :=
  if s.startsWith "err:" then .err s else
  match chunks64 s 2 with
  | some [x, y] => .point1 x y
  | _ => .bad

def parseObs2 (s : String) : Obs :=
  if s.startsWith "err:" then .err s else
  match chunks64 s 4 with
  | some [xi, xr, yi, yr] => .point2 ⟨xr, xi⟩ ⟨yr, yi⟩
  | _ => .bad

/-- the `d=` part of a round-trip observation `c=… d=…`. -/
def rtPart (obs : String) : Option String :=
  match splitWs obs with
  | [c, d] => if c.startsWith "c=" && d.startsWith "d=" then some (d.drop 2).toString else none
  | _ => none

def verdict (b : Bool) (why : String) : String := if b then "ok" else "FAIL " ++ why

def monitorCore (op obs : String) : String :=
  match splitWs op with
  | ["g1", pt] =>
    match chunks64 pt 2, rtPart obs with
    | some [x, y], some d => verdict (holdsRt1 x y (parseObs1 d)) "g1-roundtrip"
    | some _, none => "FAIL g1-roundtrip-did-not-complete"
    | _, _ => "FAIL bad-op"
  | ["g2", pt] =>
    match chunks64 pt 4, rtPart obs with
    | some [xi, xr, yi, yr], some d => verdict (holdsRt2 ⟨xr, xi⟩ ⟨yr, yi⟩ (parseObs2 d)) "g2-roundtrip"
    | some _, none => "FAIL g2-roundtrip-did-not-complete"
    | _, _ => "FAIL bad-op"
  | ["d1", m] =>
    match hexExact 64 m with
    | some m => verdict (holdsD1 m (parseObs1 obs)) "g1-decompress-not-total-or-invalid-point"
    | none => "FAIL bad-op"
  | ["d2", m] =>
    match chunks64 m 2 with
    | some [hi, lo] => verdict (holdsD2 hi lo (parseObs2 obs)) "g2-decompress-not-total-or-invalid-point"
    | _ => "FAIL bad-op"
  | ["hash", _, _] => verdict (holdsHash (parseObs1 obs)) "hash-not-on-curve"
  | ["fmul", _, _, _, _] => if obs.startsWith "PANIC" || obs == "HANG" then "FAIL field-op" else "ok"
  | ["fpow", _, _, _] => if obs.startsWith "PANIC" || obs == "HANG" then "FAIL field-op" else "ok"
  | _ => "FAIL bad-op"

/-- Model-independent clause first: compression, decompression and hashing are functions of the
    byte content of their argument only and leave the argument unchanged (the harness reports a
    violation of that as `MUTATED-INPUT` / `ALIASED` / `NONDET` in the observation). -/
def monitor (op obs : String) : String :=
  if disciplineOk obs then monitorCore op obs
  else "FAIL input-buffer-discipline (result depends on buffer identity or history, or the input was modified)"

def main (args : List String) : IO UInt32 := driverMain model monitor args
