import KeepVerif.DriverLib
import KeepVerif.Model.C20
open KeepVerif KeepVerif.C20

/-! Driver for C20.  Challenges are kept as their 64-digit lower-case hex text (`C := String`);
`H` is the table of real `hashToChallenge` values carried by the op line. -/

def isLowerHex (s : String) : Bool :=
  s.length % 2 == 0 && s.toList.all fun c => ('0' ≤ c && c ≤ '9') || ('a' ≤ c && c ≤ 'f')

def isLowerHex64 (s : String) : Bool := s.length == 64 && isLowerHex s

/-- little-endian value of a hex byte string -/
def leValue (s : String) : Nat :=
  match parseHex (if s = "" then "-" else s) with
  | some bs => bs.foldr (fun b acc => acc * 256 + b.toNat) 0
  | none => 0

def parseU64 (s : String) : Option Nat :=
  if s.isEmpty || !s.toList.all Char.isDigit then none
  else match s.toNat? with
    | some n => if n < 2 ^ 64 then some n else none
    | none => none

def ptok (s : String) : String := if s = "" then "_" else s
def pstr (s : String) : String := if s = "_" then "" else s

structure Tamper where
  n : Option Nat := none
  /-- raw nonce field (hex) -/
  l : Option String := none
  /-- challenge field (hex, any length up to 40 bytes) -/
  c : Option String := none
  p : Option String := none

def parseTamper (s : String) (allow : List Char) : Option Tamper :=
  (splitList s).foldlM (fun (t : Tamper) item =>
    match item.toList with
    | k :: '=' :: v =>
      let v := String.ofList v
      if !allow.contains k then none
      else if k = 'n' then
        match t.n, t.l, parseU64 v with
        | none, none, some x => some { t with n := some x }
        | _, _, _ => none
      else if k = 'l' then
        if t.l.isNone && t.n.isNone && isLowerHex v && v.length ≤ 32 then some { t with l := some v } else none
      else if k = 'c' then
        if t.c.isNone && isLowerHex v && v.length ≤ 80 then some { t with c := some v } else none
      else if k = 'p' then
        if t.p.isNone && v ≠ "" then some { t with p := some (pstr v) } else none
      else none
    | _ => none) {}

def parseTable (s : String) : Option (List ((Nat × Nat) × String)) :=
  (splitList s).mapM fun e =>
    match e.splitOn ":" with
    | [a, b, h] =>
      match parseU64 a, parseU64 b with
      | some a, some b => if isLowerHex64 h then some ((a, b), h) else none
      | _, _ => none
    | _ => none

def lookupH (tab : List ((Nat × Nat) × String)) (a b : Nat) : String :=
  match tab.find? (fun e => e.1 = (a, b)) with
  | some e => e.2
  | none => "?"

structure Case where
  n1 : Nat
  p1 : String
  n2 : Nat
  p2 : String
  t1 : Tamper
  t2 : Tamper
  t3 : Tamper
  tab : List ((Nat × Nat) × String)

def parseCase (line : String) : Option Case :=
  match line.splitOn " " with
  | ["hs", n1, p1, n2, p2, t1, t2, t3, tab] => do
    let n1 ← parseU64 n1
    let n2 ← parseU64 n2
    if p1 = "" || p2 = "" then none
    let t1 ← parseTamper t1 ['n', 'l', 'p']
    let t2 ← parseTamper t2 ['n', 'l', 'c', 'p']
    let t3 ← parseTamper t3 ['c']
    let tab ← parseTable tab
    pure ⟨n1, pstr p1, n2, pstr p2, t1, t2, t3, tab⟩
  | _ => none

def Tamper.ok (t : Tamper) : Bool :=
  wireOk (t.l.map (·.length / 2)) (t.c.map (·.length / 2))

def Tamper.nonce (t : Tamper) (orig : Nat) : Nat :=
  match t.l with
  | some l => leValue l
  | none => t.n.getD orig

/-- the network of the op line: field rewrites; a field of the wrong length does not unmarshal -/
def Case.net (c : Case) : WNet String where
  f1 := fun m => if c.t1.ok then some ⟨c.t1.nonce m.nonce, c.t1.p.getD m.proto⟩ else none
  f2 := fun m => if c.t2.ok then some ⟨c.t2.nonce m.nonce, c.t2.c.getD m.challenge, c.t2.p.getD m.proto⟩ else none
  f3 := fun m => if c.t3.ok then some ⟨c.t3.c.getD m.challenge⟩ else none

def showErr : Err → String
  | .protocol => "err:protocol"
  | .challenge => "err:challenge"

def showA1 (a : Act1) : String := s!"a1={a.nonce}:{ptok a.proto}"
def showA2 (a : Act2 String) : String := s!"a2={a.nonce}:{a.challenge}:{ptok a.proto}"
def showA3 (a : Act3 String) : String := s!"a3={a.challenge}"

def showOutcome : Outcome String → String
  | .rFail a1 e => s!"{showA1 a1} r={showErr e}"
  | .iFail a1 a2 e => s!"{showA1 a1} r=ok {showA2 a2} i={showErr e}"
  | .fFail a1 a2 a3 e => s!"{showA1 a1} r=ok {showA2 a2} i=ok {showA3 a3} f={showErr e}"
  | .done a1 a2 a3 => s!"{showA1 a1} r=ok {showA2 a2} i=ok {showA3 a3} f=ok"
  | .u1Fail a1 => s!"{showA1 a1} u1=err:wire"
  | .u2Fail a1 a2 => s!"{showA1 a1} r=ok {showA2 a2} u2=err:wire"
  | .u3Fail a1 a2 a3 => s!"{showA1 a1} r=ok {showA2 a2} i=ok {showA3 a3} u3=err:wire"

/-! ## Connection level (`conn` ops): random nonces, relative alterations.  The model is run with the
symbolic challenge function `H a b = (a, b, 0)`; `cx` xors the third component. -/

abbrev SymC := Nat × Nat × Nat
def symH (a b : Nat) : SymC := (a, b, 0)

structure Rel where
  p : Option String := none
  nx : Nat := 0
  cx : Option (Nat × Nat) := none
  used : Bool := false

def parseRel (s : String) (allow : List String) : Option Rel :=
  (splitList s).foldlM (fun (t : Rel) item =>
    match item.splitOn "=" with
    | [k, v] =>
      if v = "" || !allow.contains k then none
      else if k = "p" then (if t.p.isNone then some { t with p := some (pstr v), used := true } else none)
      else if k = "nx" then
        match parseU64 v with
        | some x => if t.nx = 0 then some { t with nx := x, used := true } else none
        | none => none
      else if k = "cx" then
        match v.splitOn "." with
        | [a, b] =>
          match parseU64 a, parseU64 b with
          | some pos, some mask =>
            if pos ≤ 31 && mask ≤ 255 && t.cx.isNone then some { t with cx := some (pos, mask), used := true }
            else none
          | _, _ => none
        | _ => none
      else none
    | _ => none) {}

def Rel.chal (t : Rel) (c : SymC) : SymC :=
  match t.cx with
  | some (pos, mask) => (c.1, c.2.1, c.2.2 ^^^ (mask <<< (8 * pos)))
  | none => c

structure ConnCase where
  role : String
  p1 : String
  p2 : String
  t1 : Rel
  t2 : Rel
  t3 : Rel

def parseConn (line : String) : Option ConnCase :=
  match line.splitOn " " with
  | ["conn", role, p1, p2, t1, t2, t3] => do
    if (role ≠ "R" && role ≠ "I") || p1 = "" || p2 = "" then none
    let t1 ← parseRel t1 ["p", "nx"]
    let t2 ← parseRel t2 ["p", "nx", "cx"]
    let t3 ← parseRel t3 ["cx"]
    if (role = "R" && t2.used) || (role = "I" && (t1.used || t3.used)) then none
    pure ⟨role, pstr p1, pstr p2, t1, t2, t3⟩
  | _ => none

def ConnCase.net (c : ConnCase) : Net SymC where
  f1 := fun m => ⟨m.nonce ^^^ c.t1.nx, c.t1.p.getD m.proto⟩
  f2 := fun m => ⟨m.nonce ^^^ c.t2.nx, c.t2.chal m.challenge, c.t2.p.getD m.proto⟩
  f3 := fun m => ⟨c.t3.chal m.challenge⟩

def symN1 : Nat := 1000003
def symN2 : Nat := 2000003

def showConn : Outcome SymC → String
  | .rFail _ e => s!"init=err:io resp={showErr e}"
  | .iFail _ _ e => s!"init={showErr e} resp=err:io"
  | .fFail _ _ _ e => s!"init=ok resp={showErr e}"
  | .done .. => "init=ok resp=ok"
  | _ => "init=? resp=?"

def modelConn (c : ConnCase) : String :=
  showConn (run symH symN1 c.p1 symN2 c.p2 c.net)

def monitorConn (c : ConnCase) (obs : String) : String :=
  match obs.splitOn " " with
  | [i, r] =>
    if !(i.startsWith "init=" && r.startsWith "resp=") then "FAIL unparsable-observation" else
    let initOk := i == "init=ok"
    let respOk := r == "resp=ok"
    -- the responder completes iff all four conditions hold; the initiator is done iff the first three do
    if holdsConn symH symN1 c.p1 symN2 c.p2 c.net initOk respOk then "ok"
    else if respOk != expectedComplete symH symN1 c.p1 symN2 c.p2 c.net then
      (if respOk then "FAIL responder-completed-but-conditions-do-not-hold"
       else "FAIL responder-failed-although-all-conditions-hold")
    else if initOk != expectedInitiatorDone symH symN1 c.p1 symN2 c.p2 c.net then
      (if initOk then "FAIL initiator-completed-but-conditions-do-not-hold"
       else "FAIL initiator-failed-although-all-conditions-hold")
    else "ok"
  | _ => "FAIL unparsable-observation"

def model (line : String) : String :=
  if line.startsWith "conn " then
    match parseConn line with
    | some c => modelConn c
    | none => "bad-op"
  else
  match parseCase line with
  | none => "bad-op"
  | some c => showOutcome (runWire (lookupH c.tab) c.n1 c.p1 c.n2 c.p2 c.net)

def monitor (op obs : String) : String :=
  if op.startsWith "conn " then
    match parseConn op with
    | some c => monitorConn c obs
    | none => if obs = "bad-op" then "ok" else "FAIL bad-op"
  else
  match parseCase op with
  | none => if obs = "bad-op" then "ok" else "FAIL bad-op"
  | some c =>
    let toks := obs.splitOn " "
    if !(toks.all fun t => t.startsWith "a1=" || t.startsWith "a2=" || t.startsWith "a3="
          || t.startsWith "r=" || t.startsWith "i=" || t.startsWith "f=" || t.startsWith "u1="
          || t.startsWith "u2=" || t.startsWith "u3=") then
      "FAIL unparsable-observation"
    else
    let completed := toks.getLast? == some "f=ok"
    -- the two table entries the closed formula needs
    let m1n := c.t1.nonce c.n1
    let m2n := c.t2.nonce c.n2
    let have1 := !c.t1.ok || c.tab.any (fun e => e.1 = (m1n, c.n2))
    let have2 := !(c.t1.ok && c.t2.ok) || c.tab.any (fun e => e.1 = (c.n1, m2n))
    if !(have1 && have2) then "FAIL missing-hash-entry"
    else if !tableInjective c.tab then "FAIL hash-collision (A-hash violated by the real function)"
    else if holdsW (lookupH c.tab) c.n1 c.p1 c.n2 c.p2 c.net completed then "ok"
    else if completed then "FAIL handshake-completed-but-conditions-do-not-hold"
    else "FAIL handshake-failed-although-all-conditions-hold"

def main (args : List String) : IO UInt32 := driverMain model monitor args
