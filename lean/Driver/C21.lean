import KeepVerif.DriverLib
import KeepVerif.Model.C21
open KeepVerif KeepVerif.C21

def numKeys : Nat := Gen.C21.numKeys
def grid : Nat := Gen.C21.gridSeconds

def parseSmall (s : String) : Option Nat :=
  if s.isEmpty || s.length > 9 || !s.toList.all Char.isDigit then none else s.toNat?

def parseAns (s : String) (napps : Nat) : Option (List Ans) :=
  let s := if s = "-" then "" else s
  if s.length ≠ napps then none
  else s.toList.mapM fun c =>
    if c = 'y' then some Ans.yes else if c = 'n' then some Ans.no
    else if c = 'e' then some Ans.err else if c = 'b' then some Ans.yesErr else none

def parseStep (napps : Nat) (s : String) : Option Step :=
  match s.splitOn "/" with
  | [adv, key, ans] => do
    let adv ← parseSmall adv
    let key ← parseSmall key
    let ans ← parseAns ans napps
    if key ≥ numKeys || adv % grid ≠ 0 then none
    pure ⟨adv, key, ans⟩
  | _ => none

def parseCase (line : String) : Option (Cfg × List Step) :=
  match line.splitOn " " with
  | ["fw", allow, napps, steps] => do
    let allow ← (splitList allow).mapM parseSmall
    if allow.any (· ≥ numKeys) then none
    let napps ← parseSmall napps
    if napps > 16 then none
    let steps ← (splitList steps).mapM (parseStep napps)
    if steps.isEmpty then none
    pure (realCfg allow, steps)
  | _ => none

def showVerdict : Verdict → String
  | .accept => "A" | .reject => "R" | .error => "E"

def showReport (r : Report) : String :=
  let sorted := (r.toArray.qsort (fun a b => a.1 < b.1)).toList
  if sorted.isEmpty then "-" else ".".intercalate (sorted.map fun e => s!"{e.1}@{e.2}")

def showImpl (o : ImplStep) : String :=
  s!"{showVerdict o.verdict}{o.calls}:{showReport o.pos}:{showReport o.neg}"

def model (line : String) : String :=
  match parseCase line with
  | none => "bad-op"
  | some (cfg, steps) => ",".intercalate ((implOf cfg St.empty 0 steps).map showImpl)

def parseReport (s : String) : Option Report :=
  if s = "-" then some [] else
  (s.splitOn ".").mapM fun e =>
    match e.splitOn "@" with
    | [k, a] => do pure ((← k.toNat?), (← a.toNat?))
    | _ => none

def parseImpl (s : String) : Option ImplStep :=
  match s.splitOn ":" with
  | [vc, pos, neg] =>
    match vc.toList with
    | v :: calls => do
      let verdict ← (if v = 'A' then some Verdict.accept else if v = 'R' then some Verdict.reject
                     else if v = 'E' then some Verdict.error else none)
      let calls ← (String.ofList calls).toNat?
      pure ⟨verdict, calls, ← parseReport pos, ← parseReport neg⟩
    | _ => none
  | _ => none

def monitor (op obs : String) : String :=
  match parseCase op with
  | none => if obs = "bad-op" then "ok" else "FAIL bad-op"
  | some (cfg, steps) =>
    match (obs.splitOn ",").mapM parseImpl with
    | none => "FAIL unparsable-observation"
    | some os => if holds cfg steps os then "ok" else "FAIL admission-rule"

def main (args : List String) : IO UInt32 := driverMain model monitor args
