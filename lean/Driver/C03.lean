import KeepVerif.DriverLib
import KeepVerif.Model.C03
open KeepVerif KeepVerif.C03

def hexW (w n : Nat) : String :=
  let rec go : Nat → Nat → List Char → List Char
    | 0, _, acc => acc
    | k+1, n, acc => go k (n / 16) (hexNibble (n % 16) :: acc)
  String.ofList (go w n [])

def chunks64 (s : String) (k : Nat) : Option (List Nat) :=
  if s.length ≠ 64 * k then none else
  let cs := s.toList
  (List.range k).mapM fun i => parseHexNat (String.ofList ((cs.drop (64 * i)).take 64))

def parseEntry (t : String) : Option Entry :=
  if t = "n" then some .nil else
  match t.splitOn ":" with
  | [i, v] =>
    match i.toInt? with
    | none => none
    | some i => if v = "x" then some (.noV i) else (v.toNat?).map (Entry.share i)
  | _ => none

def parseEntries (s : String) : Option (List Entry) := (splitList s).mapM parseEntry

def parsePairs (s : String) : Option (List (Nat × Nat)) :=
  (splitList s).mapM fun t =>
    match t.splitOn ":" with
    | [i, v] => do let i ← i.toNat?; let v ← v.toNat?; pure (i, v)
    | _ => none

def showPt1 (p : Nat × Nat) : String := hexW 64 p.1 ++ hexW 64 p.2
def showPt2 (p : Fp2 × Fp2) : String :=
  hexW 64 p.1.y ++ hexW 64 p.1.x ++ hexW 64 p.2.y ++ hexW 64 p.2.x

def panicNil : String := "PANIC runtime error: invalid memory address or nil pointer dereference"

/-- bytes of a share message: `e:<v>` (marshalled `v•G`) or `raw:<hex>`; `none` = shorter than 64 bytes. -/
def parseShare (s : String) : Option (Option (Nat × Nat)) :=
  if s.startsWith "e:" then
    ((s.drop 2).toString.toNat?).map fun v => some (g1OfExp v)
  else if s.startsWith "raw:" then
    let h := (s.drop 4).toString
    if h.length < 128 then some none
    else match chunks64 (String.ofList (h.toList.take 128)) 2 with
      | some [x, y] => some (some (x, y))
      | _ => none
  else none

def parseStep (s : String) : Option (Int × List Entry) :=
  match s.splitOn "|" with
  | [thr, ents] => do let thr ← thr.toInt?; let es ← parseEntries ents; pure (thr, es)
  | _ => none

/-- `<sender>:e:<v>` | `<sender>:raw:<hex>` -/
def parseMsg (s : String) : Option (Nat × Option (Nat × Nat)) :=
  match s.splitOn ":" with
  | [snd, kind, v] => do
    let snd ← snd.toNat?
    let b ← parseShare (kind ++ ":" ++ v)
    pure (snd, b)
  | _ => none

def insertSorted (p : Int × Nat) : List (Int × Nat) → List (Int × Nat)
  | [] => [p]
  | q :: qs => if p.1 ≤ q.1 then p :: q :: qs else q :: insertSorted p qs

def model (line : String) : String :=
  match splitWs line with
  | ["rec", thr, ents, coefs, m] =>
    match thr.toInt?, parseEntries ents, parseNats coefs, m.toNat? with
    | some thr, some es, some (a0 :: _), some m =>
      match recoverSig thr es with
      | .notEnough => "err:notenough"
      | .panic => panicNil
      | .ok e => showPt1 (g1OfExp e) ++ " v=" ++ (if verify a0 m e then "t" else "f")
    | _, _, _, _ => "bad-op"
  | ["recpk", thr, ents] =>
    match thr.toInt?, parseEntries ents with
    | some thr, some es =>
      match recoverPk thr es with
      | .notEnough => "err:notenough"
      | .panic => panicNil
      | .ok e => showPt2 (g2OfExp e)
    | _, _ => "bad-op"
  | ["basis", i, xs] =>
    match i.toNat?, parseInts xs with
    | some i, some xs =>
      if i < xs.length then
        match lagrangeBasis i xs with
        | some b => toString b
        | none => panicNil
      else "bad-op"
    | _, _ => "bad-op"
  | ["share", sender, pks, prev, share] =>
    match sender.toNat?, parsePairs pks, prev.toNat?, parseShare share with
    | some sender, some pks, some prev, some sh =>
      match validateShare sender pks prev sh with
      | .unmarshal => "err:unmarshal"
      | .nosender => "err:nosender"
      | .invalid => "err:invalid"
      | .accepted x y => "ok " ++ showPt1 (x, y)
    | _, _, _, _ => "bad-op"
  | ["complete", thr, ents] =>
    match thr.toInt?, parsePairs ents with
    | some thr, some ps =>
      -- the Go map is iterated in an arbitrary order; the model takes the sorted order
      -- (`recover_perm`: the result does not depend on it)
      let sorted := ps.foldr (fun p acc => insertSorted ((p.1 : Int), p.2) acc) []
      match recoverSig thr (sorted.map fun p => Entry.share p.1 p.2) with
      | .notEnough => "err:notenough"
      | .panic => panicNil
      | .ok e => showPt1 (g1OfExp e)
    | _, _ => "bad-op"
  | "recseq" :: coefs :: m :: steps =>
    match parseNats coefs, m.toNat?, steps.mapM parseStep with
    | some (a0 :: _), some m, some steps =>
      ";".intercalate (steps.map fun (thr, es) =>
        match recoverSig thr es with
        | .notEnough => "err:notenough"
        | .panic => "panic"
        | .ok e => showPt1 (g1OfExp e) ++ ":v=" ++ (if verify a0 m e then "t" else "f"))
    | _, _, _ => "bad-op"
  | "pkseq" :: coefs :: steps =>
    match parseNats coefs, steps.mapM parseStep with
    | some (_ :: _), some steps =>
      ";".intercalate (steps.map fun (thr, es) =>
        match recoverPk thr es with
        | .notEnough => "err:notenough"
        | .panic => "panic"
        | .ok e => showPt2 (g2OfExp e))
    | _, _ => "bad-op"
  | "shareseq" :: self :: pks :: prev :: msgs =>
    match self.toNat?, parsePairs pks, prev.toNat?, msgs.mapM parseMsg with
    | some self, some pks, some prev, some msgs =>
      ";".intercalate (msgs.map fun (s, b) =>
        if s == self then "self" else
        match validateShare s pks prev b with
        | .unmarshal => "err:unmarshal"
        | .nosender => "err:nosender"
        | .invalid => "err:invalid"
        | .accepted x y => "ok:" ++ showPt1 (x, y))
    | _, _, _, _ => "bad-op"
  | "entry" :: self :: n :: thr :: coefs :: prev :: msgs =>
    match self.toNat?, n.toNat?, thr.toInt?, parseNats coefs, prev.toNat?, msgs.mapM parseMsg with
    | some self, some n, some thr, some (a0 :: cs), some prev, some msgs =>
      match entryModel self n thr (a0 :: cs) prev msgs with
      | .notEnough => "timeout"
      | .panic => "panic"
      | .ok e => "entry:" ++ showPt1 (g1OfExp e) ++ ":v=" ++ (if verify a0 prev e then "t" else "f")
    | _, _, _, _, _, _ => "bad-op"
  | ["gjkr", _, _, _, _] => "SKIP"   -- keys come from the real DKG randomness; monitor only
  | _ => "bad-op"

def isCrash (obs : String) : Bool := obs.startsWith "PANIC" || obs == "HANG"

def monitorCore (op obs : String) : String :=
  match splitWs op with
  | ["rec", thr, ents, coefs, m] =>
    match thr.toInt?, parseEntries ents, parseNats coefs, m.toNat? with
    | some thr, some es, some coefs, some m =>
      let o : Option (Option ((Nat × Nat) × Bool)) :=
        if obs.startsWith "err:" then some none else
        match splitWs obs with
        | [pt, v] =>
          match chunks64 pt 2 with
          | some [x, y] => some (some ((x, y), v == "v=t"))
          | _ => none
        | _ => none
      match o with
      | some o => if holdsRec thr es coefs m o then "ok" else "FAIL recovered-signature-is-not-the-group-signature"
      | none =>
        -- a crash is only acceptable where the documented contract is broken (duplicate index)
        if isCrash obs && holdsRecCrashOk thr es then "ok" else "FAIL recovery-crashed"
    | _, _, _, _ => "FAIL bad-op"
  | ["recpk", thr, ents] =>
    match thr.toInt?, parseEntries ents with
    | some thr, some es =>
      if isCrash obs then (if holdsRecCrashOk thr es then "ok" else "FAIL recovery-crashed") else "ok"
    | _, _ => "FAIL bad-op"
  | ["basis", _, _] => "ok"
  | ["share", sender, pks, prev, share] =>
    match sender.toNat?, parsePairs pks, prev.toNat?, parseShare share with
    | some sender, some pks, some prev, some sh =>
      if obs.startsWith "ok " then
        -- accepted ⇒ the share verifies under the sender's public key share
        match chunks64 ((obs.drop 3).toString) 2 with
        | some [x, y] => if holdsAccepted sender pks prev sh (x, y) then "ok" else "FAIL unverified-share-accepted"
        | _ => "FAIL unparsable-observation"
      else if obs.startsWith "err:" then "ok" else "FAIL share-validation-crashed"
    | _, _, _, _ => "FAIL bad-op"
  | ["complete", thr, ents] =>
    match thr.toInt?, parsePairs ents with
    | some _, some _ => if isCrash obs then "FAIL recovery-crashed" else "ok"
    | _, _ => "FAIL bad-op"
  | "recseq" :: coefs :: m :: steps =>
    match parseNats coefs, m.toNat?, steps.mapM parseStep with
    | some coefs, some m, some steps =>
      let rs := obs.splitOn ";"
      if rs.length ≠ steps.length then "FAIL unparsable-observation" else
      let bad := (steps.zip rs).filter fun ((thr, es), r) =>
        if r == "panic" then !holdsRecCrashOk thr es
        else if r.startsWith "err:" then !holdsRec thr es coefs m none
        else match r.splitOn ":" with
          | [pt, v] =>
            match chunks64 pt 2 with
            | some [x, y] => !holdsRec thr es coefs m (some ((x, y), v == "v=t"))
            | _ => true
          | _ => true
      if bad.isEmpty then "ok" else "FAIL recovered-signature-is-not-the-group-signature step=" ++
        toString ((steps.zip rs).length - ((steps.zip rs).dropWhile (fun p => !bad.contains p)).length + 1)
    | _, _, _ => "FAIL bad-op"
  | "pkseq" :: coefs :: steps =>
    match parseNats coefs, steps.mapM parseStep with
    | some coefs, some steps =>
      let rs := obs.splitOn ";"
      if rs.length ≠ steps.length then "FAIL unparsable-observation" else
      let ok := (steps.zip rs).all fun ((thr, es), r) =>
        if r == "panic" then holdsRecCrashOk thr es
        else if r.startsWith "err:" then holdsPk thr es coefs none
        else match chunks64 r 4 with
          | some [xi, xr, yi, yr] => holdsPk thr es coefs (some (⟨xr, xi⟩, ⟨yr, yi⟩))
          | _ => false
      if ok then "ok" else "FAIL recovered-public-key-is-not-the-group-key"
    | _, _ => "FAIL bad-op"
  | "shareseq" :: self :: pks :: prev :: msgs =>
    match self.toNat?, parsePairs pks, prev.toNat?, msgs.mapM parseMsg with
    | some _, some pks, some prev, some msgs =>
      let rs := obs.splitOn ";"
      if rs.length ≠ msgs.length then "FAIL unparsable-observation" else
      let ok := (msgs.zip rs).all fun ((s, b), r) =>
        if r.startsWith "ok:" then
          match chunks64 ((r.drop 3).toString) 2 with
          | some [x, y] => holdsAccepted s pks prev b (x, y)
          | _ => false
        else r == "self" || r.startsWith "err:"
      if ok then "ok" else "FAIL unverified-share-accepted"
    | _, _, _, _ => "FAIL bad-op"
  | "entry" :: _ :: _ :: thr :: coefs :: prev :: _ =>
    match thr.toInt?, parseNats coefs, prev.toNat? with
    | some thr, some (a0 :: cs), some prev =>
      if obs == "timeout" then "ok"
      else match obs.splitOn ":" with
        | ["entry", pt, v] =>
          match chunks64 pt 2 with
          | some [x, y] =>
            if v == "v=t" && (decide (((a0 :: cs).length : Int) > thr) || (x, y) == g1OfExp (a0 * prev))
            then "ok" else "FAIL relay-entry-is-not-the-group-signature"
          | _ => "FAIL unparsable-observation"
        | _ => "FAIL sign-and-submit-failed"
    | _, _, _ => "FAIL bad-op"
  | ["gjkr", _, t, _, _] =>
    match splitWs obs, t.toNat? with
    | [mem, acc, ver, same], some t =>
      let k := ((mem.drop 8).toString.toNat?).getD 0
      let okAcc := match ((acc.drop 9).toString).splitOn "/" with
        | [a, b] => a == b
        | _ => false
      if k ≥ t + 1 && okAcc && ver == "verified=t" && same == "same=t" then "ok"
      else "FAIL gjkr-keys-do-not-recover-a-verifying-signature"
    | _, _ => "FAIL gjkr-run-did-not-finish"
  | _ => "FAIL bad-op"

/-- buffer discipline (model-independent): recovery and share validation do not modify their
    inputs and are functions of the input content only. -/
def disciplineOk (obs : String) : Bool :=
  (obs.splitOn "MUTATED-INPUT").length == 1 && (obs.splitOn "ALIASED").length == 1
    && (obs.splitOn "NONDET").length == 1

def monitor (op obs : String) : String :=
  if disciplineOk obs then monitorCore op obs
  else "FAIL input-buffer-discipline (result depends on buffer identity or history, or the input was modified)"

def main (args : List String) : IO UInt32 := driverMain model monitor args
