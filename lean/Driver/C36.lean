import KeepVerif.DriverLib
import KeepVerif.Model.C36
import KeepVerif.Model.C35Loop
import KeepVerif.Gen.C36
open KeepVerif KeepVerif.C36

def canonNat? (s : String) (lo hi : Nat) : Option Nat :=
  match s.toNat? with
  | some n => if toString n == s && lo ≤ n && n ≤ hi then some n else none
  | none => none

def parseOutcome (o : String) : Option Outcome :=
  match o with
  | "u" => some .unstaking
  | "ue" | "nr" | "se" => some .unstakingErr
  | "iv" => some .invalidProposal
  | "xp" => some .badExpiry
  | "sg" => some .signErr
  | _ =>
    if !o.startsWith "a" then none else
    let body := (o.drop 1).toString
    let (body, fails) := if body.endsWith "f" then ((body.dropEnd 1).toString, true) else (body, false)
    match body.splitOn "i" with
    | [n, ms] => do
      let a ← canonNat? n 0 255
      let inact ← if ms == "-" then some [] else (ms.splitOn ".").mapM (canonNat? · 1 255)
      pure (.signed a inact fails)
    | _ => none

def parseStep (tok : String) : Option (Nat × Outcome) :=
  match tok.splitOn "/" with
  | [w, o] => do pure (← canonNat? w 0 11, ← parseOutcome o)
  | _ => none

def parseHistory (s : String) : Option (List (Nat × Outcome)) :=
  let toks := splitList s
  if toks.isEmpty then none else toks.mapM parseStep

def showErr : Err → String
  | .ok => "ok" | .eUnstake => "e-unstake" | .eInvalid => "e-invalid" | .eExpiry => "e-expiry"
  | .eSign => "e-sign" | .eNoInactive => "e-noinactive" | .eClaim => "e-claim"

def parseErr : String → Option Err
  | "ok" => some .ok | "e-unstake" => some .eUnstake | "e-invalid" => some .eInvalid
  | "e-expiry" => some .eExpiry | "e-sign" => some .eSign | "e-noinactive" => some .eNoInactive
  | "e-claim" => some .eClaim | _ => none

def showClaim : Option Claim → String
  | none => "-"
  | some (ms, hf) => "m" ++ ".".intercalate (ms.map toString) ++ "/" ++ (if hf then "t" else "f")

def parseClaim (s : String) : Option (Option Claim) :=
  if s == "-" then some none else
  if !s.startsWith "m" then none else
  match ((s.drop 1).toString).splitOn "/" with
  | [ms, hf] => do
    let l ← (ms.splitOn ".").mapM String.toNat?
    let b ← if hf == "t" then some true else if hf == "f" then some false else none
    pure (some (l, b))
  | _ => none

def showObs (o : Obs) : String := s!"{showErr o.1}:{showClaim o.2.1}:{o.2.2}"

def parseObs (s : String) : Option Obs :=
  match s.splitOn ":" with
  | [e, c, n] => do pure (← parseErr e, ← parseClaim c, ← n.toNat?)
  | _ => none

def loopConsts : C35Loop.Consts :=
  ⟨Gen.C36.loopDelayBlocks, Gen.C36.loopActiveBlocks, Gen.C36.loopProtocolBlocks, Gen.C36.loopCoolDownBlocks⟩

def model (line : String) : String :=
  if C35Loop.isLoopOp line then (if (C35Loop.parseCase line).isSome then "SKIP" else "bad-op") else
  match splitWs line with
  | ["hb", h] =>
    match parseHistory h with
    | some hist => ",".intercalate ((run hist).map showObs)
    | none => "bad-op"
  | _ => "bad-op"

def monitor (op obs : String) : String :=
  if C35Loop.isLoopOp op then C35Loop.monitor loopConsts op obs else
  match splitWs op with
  | ["hb", h] =>
    match parseHistory h with
    | none => if obs == "bad-op" then "ok" else "FAIL bad-op-accepted"
    | some hist =>
      match (obs.splitOn ",").mapM parseObs with
      | some os => if holds hist os then "ok" else "FAIL claim-or-counter-not-as-required"
      | none => "FAIL unparsable-observation"
  | _ => if obs == "bad-op" then "ok" else "FAIL bad-op-accepted"

def main (args : List String) : IO UInt32 := driverMain model monitor args
