import KeepVerif.DriverLib
import KeepVerif.Model.C05
open KeepVerif KeepVerif.C05

def showErr : Err → String
  | .timeout => "err:timeout" | .nokey => "err:nokey" | .key => "err:key"
  | .misbehaved => "err:misbehaved" | .ops => "err:ops"

def showRes : Res → String
  | .ok ops => "ok " ++ showList ops
  | .err e => showErr e
  | .panicIndex => "panic:index"

def parseRes (ws : List String) : Option Res :=
  match ws with
  | ["ok", ops] => some (.ok (splitList ops))
  | ["err:timeout"] => some (.err .timeout) | ["err:nokey"] => some (.err .nokey)
  | ["err:key"] => some (.err .key) | ["err:misbehaved"] => some (.err .misbehaved)
  | ["err:ops"] => some (.err .ops) | ["panic:index"] => some .panicIndex
  | _ => none

structure FateOp where
  me : Nat
  n : Nat
  honest : Nat
  step : Nat
  start : Nat
  myKey : Option String
  ev : Option Event
  sel : List String
  localIA : List Nat
  localDQ : List Nat

def parseFate13 (ws : List String) : Option FateOp :=
  match ws with
  | ["fate", me, n, honest, step, start, mykey, evkey, misb, order, sel, ia, dq] => do
    let ia ← parseNats ia; let dq ← parseNats dq
    let me ← me.toNat?; let n ← n.toNat?; let honest ← honest.toNat?
    let step ← step.toNat?; let start ← start.toNat?
    let misb ← parseNats misb
    if n < 1 ∨ n > 255 ∨ honest > n ∨ me > 255 then none else
    if order ≠ "e" ∧ order ≠ "t" then none else
    let ev : Option Event :=
      if evkey = "-" ∨ order = "t" then none else some ⟨evkey, misb.map (· % 256)⟩
    pure ⟨me, n, honest, step, start, if mykey = "nil" then none else some mykey, ev, splitList sel,
          ia.map (· % 256), dq.map (· % 256)⟩
  | _ => none

/-- the 11-token form (no local view) means a fresh group -/
def parseFate (ws : List String) : Option FateOp :=
  parseFate13 (if ws.length = 11 ∧ ws.head? = some "fate" then ws ++ ["-", "-"] else ws)

/-- full `ExecuteDKG` run: every member that ends with a signer must not be listed by the
    chain-accepted result and must hold exactly the selected operators of the members the chain
    does not list (every seat is held by the one operator `op`), whatever its local view was. -/
def monitorDkg (n : Nat) (obs : String) : String :=
  match splitWs obs with
  | mis :: members =>
    if !mis.startsWith "mis=" then "FAIL unparsable-observation" else
    let m := (mis.drop 4).toString
    let accepted : Option (List Nat) := if m = "none" then none else parseNats m
    if m ≠ "none" ∧ accepted.isNone then "FAIL unparsable-observation" else
    if members.length ≠ n then "FAIL members-missing" else
    let sel := List.replicate n "op"
    let bad := members.any (fun tok =>
      match tok.splitOn ":" with
      | [i, "ok", ops] =>
        match i.toNat?, accepted with
        | some i, some misb =>
          holds i n 0 (some "k") (some ⟨"k", misb⟩) sel (.ok (splitList ops)) == false
        | _, _ => true          -- a signer although the chain accepted no result
      | [_, "err"] => false
      | _ => true)
    if bad then "FAIL fate-rule" else "ok"
  | _ => "FAIL unparsable-observation"

def model (line : String) : String :=
  let ws := splitWs line
  if ws.head? = some "dkg" then "SKIP" else
  match parseFate ws with
  | some o =>
    s!"T={timeoutBlock o.start o.n o.step} " ++ showRes (fateThenOperatorsG o.me o.n o.honest o.myKey o.ev o.sel o.localIA o.localDQ)
  | none =>
    match ws with
    | ["resolve", n, honest, sel, ids] =>
      match n.toNat?, honest.toNat?, parseNats ids with
      | some n, some h, some ids => showRes (resolveGroupOperators (splitList sel) (ids.map (· % 256)) n h)
      | _, _, _ => "bad-op"
    | _ => "bad-op"

def monitor (op obs : String) : String :=
  let ws := splitWs op
  if ws.head? = some "dkg" then
    match ws with
    | [_, n, _, _, _] => match n.toNat? with | some n => monitorDkg n obs | none => "FAIL bad-op"
    | _ => "FAIL bad-op"
  else
  match parseFate ws with
  | some o =>
    match splitWs obs with
    | t :: rest =>
      if t ≠ s!"T={timeoutBlock o.start o.n o.step}" then "FAIL timeout-block"
      else match parseRes rest with
        | some r => if holds o.me o.n o.honest o.myKey o.ev o.sel r then "ok" else "FAIL fate-rule"
        | none => "FAIL unparsable-observation"
    | _ => "FAIL unparsable-observation"
  | none =>
    match ws with
    | ["resolve", n, honest, sel, ids] =>
      -- domain of the property: ids of group members; the stand-alone op is checked by
      -- correspondence, the monitor only demands the operator list to be the selected
      -- operators of the given members in index order when the result is ok
      match n.toNat?, honest.toNat?, parseNats ids, parseRes (splitWs obs) with
      | some _, some _, some ids, some (.ok ops) =>
        if ops = (sortIds ids).filterMap (fun i => (splitList sel)[i - 1]?) ∧ ids.all (· ≥ 1)
        then "ok" else "FAIL operators-rule"
      | some _, some _, some _, some _ => "ok"
      | _, _, _, _ => if obs = "bad-op" then "ok" else "FAIL unparsable-observation"
    | _ => if obs = "bad-op" then "ok" else "FAIL bad-op"

def main (args : List String) : IO UInt32 := driverMain model monitor args
