import KeepVerif.DriverLib
import KeepVerif.Model.C39
open KeepVerif
open KeepVerif.C39

def parseOp : String → Option Op
  | "g" => some .gen | "gf" => some .genFail | "gw" => some .genFailWrote | "gn" => some .genNil
  | "gc" => some .genCrash | "gt" => some .genTorn | "gx" => some .genFailWrote | "t" => some .take | "tf" => some .takeFail
  | "tb" => some .takeCrashBefore | "ta" => some .takeCrashAfter
  | "r" => some .restart | "rf" => some .restartFail
  | _ => none

def showOut : Out → String
  | .saved b => if b then "sp" else "s"
  | .failed b => if b then "fp" else "f"
  | .nil => "n" | .busy => "b" | .crashed => "c"
  | .val id d => s!"v{id}" ++ (if d then "!" else "")
  | .empty => "E" | .delErr => "d" | .restarted => "r" | .panic => "PANIC"

def parseOut (s : String) : Option Out :=
  match s with
  | "s" => some (.saved false) | "sp" => some (.saved true)
  | "f" => some (.failed false) | "fp" => some (.failed true)
  | "n" => some .nil | "b" => some .busy | "c" => some .crashed
  | "E" => some .empty | "d" => some .delErr | "r" => some .restarted | "PANIC" => some .panic
  | _ =>
    if s.startsWith "v" then
      let body := (s.drop 1).toString
      if body.endsWith "!" then (body.dropEnd 1).toString.toNat?.map (Out.val · true)
      else body.toNat?.map (Out.val · false)
    else none

def field (pre : String) (tok : String) : Option String :=
  if tok.startsWith pre then some (tok.drop pre.length).toString else none

/-- `pool <size> <steps>` (harness persistence) and `ppool <size> <order-seed> <steps>` (the real
    preParamsStorage; the order in which the handle lists the files must not matter). -/
def normalize (line : String) : List String :=
  match splitWs line with
  | ["ppool", sz, _, steps] => ["pool", sz, steps]
  | l => l

def model (line : String) : String :=
  match normalize line with
  | ["pool", sz, steps] =>
    match sz.toNat?, (splitList steps).mapM parseOp with
    | some size, some ops =>
      let (sf, outs, cnts) := run Gen.C39.returnsOnSaveError size ops
      s!"outs={showList (outs.map showOut)} counts={showList cnts} disk={showList sf.disk}"
    | _, _ => "bad-op"
  | _ => "bad-op"

def monitor (op obs : String) : String :=
  match normalize op with
  | ["pool", sz, _] =>
    if (obs.splitOn "?").length > 1 then "FAIL invalid-parameter-served" else
    if obs.startsWith "STUCK" then "FAIL generator-stuck" else
    match sz.toNat?, splitWs obs with
    | some size, [o, c, d] =>
      match (field "outs=" o).bind (fun x => (splitList x).mapM parseOut),
            (field "counts=" c).bind parseNats, (field "disk=" d).bind parseNats with
      | some outs, some cnts, some disk =>
        if holds size outs cnts disk then "ok"
        else if outs.contains .panic then "FAIL nil-parameter-served-panic"
        else "FAIL pool-rule"
      | _, _, _ => "FAIL unparsable-observation"
    | _, _ => "FAIL unparsable-observation"
  | _ => "FAIL bad-op"

def main (args : List String) : IO UInt32 := driverMain model monitor args
