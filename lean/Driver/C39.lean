import KeepVerif.DriverLib
import KeepVerif.Model.C39
open KeepVerif
open KeepVerif.C39

def parseOp : String → Option Op
  | "g" => some .gen | "gf" => some .genFail | "gw" => some .genFailWrote | "gn" => some .genNil
  | "gc" => some .genCrash | "gt" => some .genTorn | "gx" => some .genFailWrote | "t" => some .take | "tf" => some .takeFail
  | "tb" => some .takeCrashBefore | "ta" => some .takeCrashAfter
  | "r" => some .restart | "rf" => some .restartFail
  | _ => none

def showOut : Out → String
  | .saved b => if b then "sp" else "s"
  | .failed b => if b then "fp" else "f"
  | .nil => "n" | .busy => "b" | .crashed => "c"
  | .val id d => s!"v{id}" ++ (if d then "!" else "")
  | .empty => "E" | .delErr => "d" | .restarted => "r" | .panic => "PANIC"

def parseOut (s : String) : Option Out :=
  match s with
  | "s" => some (.saved false) | "sp" => some (.saved true)
  | "f" => some (.failed false) | "fp" => some (.failed true)
  | "n" => some .nil | "b" => some .busy | "c" => some .crashed
  | "E" => some .empty | "d" => some .delErr | "r" => some .restarted | "PANIC" => some .panic
  | "z" => some .nil
  | _ =>
    if s.startsWith "v" then
      let body := (s.drop 1).toString
      if body.endsWith "!" then (body.dropEnd 1).toString.toNat?.map (Out.val · true)
      else body.toNat?.map (Out.val · false)
    else none

def field (pre : String) (tok : String) : Option String :=
  if tok.startsWith pre then some (tok.drop pre.length).toString else none

/-- `pool <size> <steps>` (harness persistence) and `ppool <size> <order-seed> <steps>` (the real
    preParamsStorage; the order in which the handle lists the files must not matter). -/
def normalize (line : String) : List String :=
  match splitWs line with
  | ["ppool", sz, _, steps] => ["pool", sz, steps]
  | l => l

/-- a script token: a model op, or the scheduler pause / resume of this process lifetime. While
    generation is paused the generator goroutine does not exist: generate steps do nothing (`b`). -/
inductive Tok where
  | op (o : Op) | pause | resume

def parseTok (s : String) : Option Tok :=
  if s = "ps" then some .pause else if s = "pr" then some .resume else (parseOp s).map .op

def isGen : Op → Bool
  | .gen | .genFail | .genFailWrote | .genNil | .genCrash | .genTorn => true
  | _ => false

/-- does the op end with a restart (a new process: generation is running again)? -/
def restarts (o : Op) (out : Out) : Bool :=
  match o with
  | .restart | .restartFail => true
  | _ => out == .crashed

def runToks (fixed : Bool) : St → Bool → List Tok → List String × List Nat × St
  | s, _, [] => ([], [], s)
  | s, paused, t :: rest =>
    let (s', out, paused') : St × String × Bool :=
      match t with
      | .pause => if paused then (s, "z", true) else ((step fixed s .pause).1, "z", true)
      | .resume => (s, "z", false)
      | .op o =>
        if paused && isGen o then (s, "b", true) else
        let (s1, r) := step fixed s o
        (s1, showOut r, paused && !restarts o r)
    if s'.dead then ([out], [], s') else
    let (outs, cnts, sf) := runToks fixed s' paused' rest
    (out :: outs, s'.pool.length :: cnts, sf)

def model (line : String) : String :=
  match normalize line with
  | ["pool", sz, steps] =>
    match sz.toNat?, (splitList steps).mapM parseTok with
    | some size, some toks =>
      let (outs, cnts, sf) := runToks Gen.C39.returnsOnSaveError (init size) false toks
      s!"outs={showList outs} counts={showList cnts} disk={showList sf.disk}"
    | _, _ => "bad-op"
  | _ => "bad-op"

def monitor (op obs : String) : String :=
  match normalize op with
  | ["pool", sz, _] =>
    if (obs.splitOn "?").length > 1 then "FAIL invalid-parameter-served" else
    if obs.startsWith "STUCK" then "FAIL generator-stuck" else
    match sz.toNat?, splitWs obs with
    | some size, [o, c, d] =>
      match (field "outs=" o).bind (fun x => (splitList x).mapM parseOut),
            (field "counts=" c).bind parseNats, (field "disk=" d).bind parseNats with
      | some outs, some cnts, some disk =>
        if holds size outs cnts disk then "ok"
        else if outs.contains .panic then "FAIL nil-parameter-served-panic"
        else "FAIL pool-rule"
      | _, _, _ => "FAIL unparsable-observation"
    | _, _ => "FAIL unparsable-observation"
  | _ => "FAIL bad-op"

def main (args : List String) : IO UInt32 := driverMain model monitor args
