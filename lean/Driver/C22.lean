import KeepVerif.DriverLib
import KeepVerif.Model.C22
open KeepVerif

def parseSwaps (s : String) : Option (List (Nat × Nat)) :=
  (splitList s).mapM fun p =>
    match p.splitOn ":" with
    | [a, b] => do pure ((← a.toNat?), (← b.toNat?))
    | _ => none

def parseRng (s : String) : Option (Nat → List (Nat × Nat)) := do
  let tbl ← (s.splitOn ";").mapM parseSwaps
  pure fun n => tbl.getD n []

def parseAddr (s : String) : Option Nat :=
  if s.length = 40 && s.all (fun c => c.isDigit || ('a' ≤ c && c ≤ 'f')) then parseHexNat s else none

def parseViews (s : String) : Option (List (List Nat)) :=
  (s.splitOn "/").mapM fun v => (splitList v).mapM parseAddr

def showAddr (n : Nat) : String :=
  let ds := (Nat.toDigits 16 n)
  String.ofList (List.replicate (40 - ds.length) '0' ++ ds)

def isSeed (s : String) : Bool := s.length = 64 && (parseHex s).isSome

/-- leaders per view; a view without operators is the Go panic -/
def leadersOut (rng : Nat → List (Nat × Nat)) (views : List (List Nat)) : String :=
  match views.mapM (C22.getLeader rng) with
  | some ls => ",".intercalate (ls.map showAddr)
  | none => "PANIC runtime error: index out of range [0] with length 0"

/-- (seed, rng) pairs of an lseq line -/
def parseSteps : List String → Option (List (Nat × (Nat → List (Nat × Nat))))
  | [] => some []
  | seed :: rng :: rest => do
    if !isSeed seed then none
    let s ← parseHexNat seed
    let r ← parseRng rng
    let tl ← parseSteps rest
    pure ((s, r) :: tl)
  | _ => none

def be64 (n : Nat) : List UInt8 := C22.Sha256.be64 n

def model (line : String) : String :=
  match splitWs line with
  | ["leader", seed, rng, views] =>
    match isSeed seed, parseRng rng, parseViews views with
    | true, some r, some vs => leadersOut r vs
    | _, _, _ => "bad-op"
  | "lseq" :: view :: steps =>
    match parseViews view, parseSteps steps with
    | some [v], some st =>
      if st.isEmpty then "bad-op" else
      match (C22.leaderSeq (st.map (·.2)) v).mapM id with
      | some ls => let o := ",".intercalate (ls.map showAddr); s!"{o} {o}"
      | none => "PANIC runtime error: index out of range [0] with length 0"
    | _, _ => "bad-op"
  | ["checklist", idx, seed, k] =>
    match idx.toNat?, isSeed seed, k.toNat? with
    | some i, true, some k => showList (C22.checklist i (C22.draw k))
    | _, _, _ => "bad-op"
  | ["coord", _scalar, pkh, block, prefix_, rng, k, views] =>
    match parseHex pkh, block.toNat?, parseHex prefix_, parseRng rng, k.toNat?, parseViews views with
    | some pkhB, some b, some pre, some r, some k, some vs =>
      if pkhB.length = 20 && pre.length = 24 then
        let seed := C22.getSeed pkhB (pre ++ be64 (C22.safeBlockNumber b))
        let ls := leadersOut r vs
        if ls.startsWith "PANIC" then ls else
        s!"{showHex pkhB} {showHex seed} {ls} {showList (C22.checklist (C22.windowIndex b) (C22.draw k))}"
      else "bad-op"
    | _, _, _, _, _, _ => "bad-op"
  | _ => "bad-op"

def parseLeaders (s : String) : Option (List Nat) := (splitList s).mapM parseAddr

def monitor (op obs : String) : String :=
  match splitWs op with
  | ["leader", _, _, views] =>
    match parseViews views, parseLeaders obs with
    | some vs, some ls => if vs.length == ls.length && C22.holdsLeader (vs.zip ls) then "ok" else "FAIL leader-rule"
    | some vs, none => if vs.any List.isEmpty && obs.startsWith "PANIC" then "ok" else "FAIL unparsable-observation"
    | _, _ => "FAIL bad-op"
  | "lseq" :: view :: steps =>
    match parseViews view, parseSteps steps with
    | some [v], some st =>
      match splitWs obs with
      | [l, f] =>
        match parseLeaders l, parseLeaders f with
        | some ll, some fl =>
          if ll.length != st.length then "FAIL unparsable-observation"
          else if ll != fl then "FAIL members-with-different-histories-disagree"
          else if C22.holdsLeaderSeq v (st.map (·.1)) ll fl then "ok" else "FAIL leader-rule"
        | _, _ => "FAIL unparsable-observation"
      | _ => if v.isEmpty && obs.startsWith "PANIC" then "ok" else "FAIL unparsable-observation"
    | _, _ => "FAIL bad-op"
  | ["checklist", idx, _, k] =>
    match idx.toNat?, k.toNat?, parseNats obs with
    | some i, some k, some o => if C22.holdsChecklist i (C22.draw k) o then "ok" else "FAIL checklist-rule"
    | _, _, _ => "FAIL unparsable-observation"
  | ["coord", _, _, block, _, _, k, views] =>
    match parseViews views, block.toNat?, k.toNat?, splitWs obs with
    | some vs, some b, some k, [_, _, ls, chk] =>
      match parseLeaders ls, parseNats chk with
      | some ls, some o =>
        if !(vs.length == ls.length && C22.holdsLeader (vs.zip ls)) then "FAIL leader-rule"
        else if !C22.holdsChecklist (C22.windowIndex b) (C22.draw k) o then "FAIL checklist-rule"
        else "ok"
      | _, _ => "FAIL unparsable-observation"
    | some vs, _, _, _ => if vs.any List.isEmpty && obs.startsWith "PANIC" then "ok" else "FAIL unparsable-observation"
    | _, _, _, _ => "FAIL bad-op"
  | _ => "FAIL bad-op"

def main (args : List String) : IO UInt32 := driverMain model monitor args
