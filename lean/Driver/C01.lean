import KeepVerif.DriverLib
import KeepVerif.Model.C01
import KeepVerif.Model.C01Drv
import KeepVerif.Props.C01Agree3
open KeepVerif
open KeepVerif.C01


open C01Drv

def model (line : String) : String :=
  match parseOp true line with
  | some cfg => obsC01 cfg
  | none => "bad-op"

def monitor (op obs : String) : String :=
  match parseOp true op with
  | none => if obs = "bad-op" then "ok" else "FAIL bad-op"
  | some cfg =>
    match (splitWs obs).mapM parseOut with
    | none => "FAIL unparsable-observation"
    | some outs =>
      let honest := (members cfg.n).filter (fun i => !(corrupt cfg).contains i)
      if outs.map (·.id) ≠ honest then "FAIL honest-members-missing"
      else if outs.any (fun o => o.ok && o.key.isNone) then "FAIL finished-without-group-key"
      else if (corrupt cfg).eraseDups.length > cfg.t then "ok"   -- outside the property's hypothesis
      else if !holds honest outs then "FAIL honest-members-disagree"
      -- the named premises of `agreement_partial` (Sync10), evaluated on the model's run of this case
      else if !premisesHold cfg then "FAIL agreement-premises-do-not-hold-on-the-model-run"
      else "ok"

def main (args : List String) : IO UInt32 := driverMain model monitor args
