import KeepVerif.DriverLib
import KeepVerif.Model.C09
open KeepVerif KeepVerif.C09

/-- `.`-separated raw Uint32 stream (`-` = empty) -/
def parseStream (s : String) : Option (List Nat) :=
  if s = "-" || s = "" then some [] else (s.splitOn ".").mapM String.toNat?

def showRes : Res → String
  | .ok s => "ok " ++ showList s
  | .tooMany => "err:too-many-seats"
  | .retries n => s!"err:retries:{n}"
  | .panic => "PANIC index out of range"

def parseRes (s : String) : Option Res :=
  match splitWs s with
  | ["ok", l] => (parseNats l).map Res.ok
  | ["err:too-many-seats"] => some .tooMany
  | [e] =>
    match e.splitOn ":" with
    | ["err", "retries", n] => n.toNat?.map Res.retries
    | ["ok", l] => (parseNats l).map Res.ok
    | _ => none
  | _ => none

def isOk : Res → Bool
  | .ok _ => true
  | _ => false

/-- keygen for retry = 0, 1, … until the first error (cap as in the harness) -/
def kgAll (shuf : Nat → List Nat) (seats : List Nat) (k : Nat) : Nat → Nat → List Res
  | 0, _ => []
  | fuel + 1, r =>
    let x := keygen shuf seats r k
    if isOk x then x :: kgAll shuf seats k fuel (r + 1) else [x]

def showAll (rs : List Res) : String :=
  "|".intercalate (rs.map fun r => (showRes r).replace " " ":")

def model (line : String) : String :=
  match splitWs line with
  | ["sg", seats, _seed, _retry, k, st] =>
    match parseNats seats, k.toNat?, parseStream st with
    | some ss, some k, some st => showRes (signing (goShuffle st) ss k)
    | _, _, _ => "bad-op"
  | ["kg", seats, _seed, retry, k, st] =>
    match parseNats seats, retry.toNat?, k.toNat?, parseStream st with
    | some ss, some r, some k, some st => showRes (keygen (goShuffle st) ss r k)
    | _, _, _, _ => "bad-op"
  | ["kgall", seats, _seed, k, st] =>
    match parseNats seats, k.toNat?, parseStream st with
    | some ss, some k, some st => showAll (kgAll (goShuffle st) ss k 120 0)
    | _, _, _ => "bad-op"
  | _ => "bad-op"

def monitor (op obs : String) : String :=
  if (obs.splitOn "nondet").length > 1 then "FAIL result-differs-between-identical-calls" else
  if (obs.splitOn "input-mutated").length > 1 then "FAIL input-slice-modified" else
  match splitWs op with
  | [kind, seats, _seed, _retry, k, _st] =>
    if kind != "sg" && kind != "kg" then "FAIL bad-op" else
    match parseNats seats, k.toNat?, parseRes obs with
    | some ss, some k, some r =>
      if holds ss k r then "ok" else
        match r with
        | .ok res => if res.length < k then "FAIL fewer-seats-than-requested" else "FAIL operator-seats-split-or-not-a-sublist"
        | _ => "FAIL wrong-error"
    | some _, some _, none => "FAIL not-a-selection-result " ++ obs
    | _, _, _ => "FAIL bad-op"
  | ["kgall", seats, _seed, k, _st] =>
    match parseNats seats, k.toNat?, (obs.splitOn "|").mapM parseRes with
    | some ss, some k, some rs =>
      if holdsAll ss k rs then "ok"
      else if !(rs.all (holds ss k)) then "FAIL fewer-seats-than-requested-or-split-operator"
      else "FAIL exclusions-not-distinct-or-out-of-order"
    | some _, some _, none => "FAIL not-a-selection-result " ++ obs
    | _, _, _ => "FAIL bad-op"
  | _ => "FAIL bad-op"

def main (args : List String) : IO UInt32 := driverMain model monitor args
