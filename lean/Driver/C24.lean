import KeepVerif.DriverLib
import KeepVerif.Model.C24
open KeepVerif KeepVerif.C24

def parseMsg (i : Nat) (s : String) : Option Msg :=
  match (s.splitOn ":").mapM String.toNat? with
  | some [k, n, sid, b, w, a] =>
    -- kind 2 = coordination message with retransmissions (same seqno, deduplicated by the channel)
    if sid < 256 && k ≤ 2 then some ⟨if k = 2 then 0 else k, n, sid, b, w, a, if a = 0 then 0 else i + 1⟩
    else none
  | _ => none

def parseMsgs (s : String) : Option (List Msg) :=
  ((splitList s).zipIdx).mapM fun (t, i) => parseMsg i t

def mkCase (seats self leader block allowed msgs : String) : Option (Cfg × List Msg) := do
  let seats ← parseNats seats
  let self ← self.toNat?
  let leader ← leader.toNat?
  let block ← block.toNat?
  let allowed ← parseNats allowed
  let msgs ← parseMsgs msgs
  if seats.length > 255 then none
  pure (⟨seats, membersByOperator seats self, leader, block, allowed⟩, msgs)

def parseCase (line : String) : Option (Cfg × List Msg) :=
  match splitWs line with
  | ["follow", seats, self, leader, block, allowed, msgs] => mkCase seats self leader block allowed msgs
  | _ => none

def parseSeq (line : String) : Option (List (Cfg × List Msg)) :=
  match splitWs line with
  | ["fseq", seats, self, allowed, windows] =>
    (windows.splitOn "|").mapM fun w =>
      match w.splitOn ";" with
      | [leader, block, msgs] => mkCase seats self leader block allowed msgs
      | _ => none
  | _ => none

def parseEvents (s : String) : Option (List Ev) :=
  ((splitList s).zipIdx).mapM fun (t, i) =>
    if t.startsWith "@" then (t.drop 1).toString.toNat?.map Ev.clock
    else (parseMsg i t).map Ev.msg

def parseCoord (line : String) : Option (Cfg × List Ev) :=
  match splitWs line with
  | ["fcoord", seats, self, block, leader, allowed, events] => do
    let (cfg, _) ← mkCase seats self leader block allowed "-"
    let evs ← parseEvents events
    if cfg.seats.isEmpty then none
    pure (cfg, evs)
  | _ => none

def parseRace (line : String) : Option (Cfg × List Msg × Nat) :=
  match splitWs line with
  | ["frace", seats, self, leader, block, allowed, msgs, k] => do
    let (cfg, ms) ← mkCase seats self leader block allowed msgs
    let k ← k.toNat?
    if k > ms.length then none
    pure (cfg, ms, k)
  | _ => none

def showFault (f : Fault) : String :=
  (match f.type with | .idleness => "L" | .mistake => "M" | .impersonation => "I") ++ toString f.culprit

def showProp : Option (Nat × Nat) → String
  | none => "-"
  | some (a, t) => s!"{a}:{t}"

def panicText : String := "PANIC runtime error: index out of range [0] with length 0"

def render (r : Option (Option (Nat × Nat) × List Fault)) : String :=
  match r with
  | none => panicText
  | some (p, fs) =>
    s!"prop={showProp p} faults={showList (fs.map showFault)} err={if p.isNone then 1 else 0}"

def renderCoord (cfg : Cfg) (r : Nat × Option (Option (Nat × Nat) × List Fault)) : String :=
  match r.2 with
  | none => panicText
  | some (none, _) => s!"cancel={r.1} err"
  | some (some p, fs) =>
    s!"cancel={r.1} leader={cfg.leader} prop={showProp (some p)} faults={showList (fs.map showFault)}"

def model (line : String) : String :=
  match parseCoord line with
  | some (cfg, evs) => renderCoord cfg (coordinateFollower cfg evs)
  | none =>
  match parseCase line, parseSeq line, parseRace line with
  | some (cfg, msgs), _, _ => render (follower cfg msgs)
  | _, some ws, _ =>
    let rs := followerSeq ws
    if rs.any Option.isNone then panicText else " / ".intercalate (rs.map render)
  | _, _, some _ => "SKIP"
  | _, _, _ => "bad-op"

def parseFault (s : String) : Option Fault :=
  match s.toList with
  | c :: rest => do
    let n ← (String.ofList rest).toNat?
    let t ← (if c = 'L' then some FaultType.idleness else if c = 'M' then some .mistake
             else if c = 'I' then some .impersonation else none)
    pure ⟨t, n⟩
  | [] => none

def parseProp (s : String) : Option (Option (Nat × Nat)) :=
  if s = "-" then some none else
  match (s.splitOn ":").mapM String.toNat? with
  | some [a, t] => some (some (a, t))
  | _ => none

def stripPrefix (pre s : String) : Option String :=
  if s.startsWith pre then some (s.drop pre.length).toString else none

def monitorOne (cfg : Cfg) (msgs : List Msg) (obs : String) : String :=
  match splitWs obs with
  | [p, f, e] =>
    match (stripPrefix "prop=" p).bind parseProp,
          (stripPrefix "faults=" f).bind (fun s => (splitList s).mapM parseFault),
          stripPrefix "err=" e with
    | some prop, some faults, some err =>
      if (err == "1") != prop.isNone then "FAIL error-without-idle-or-proposal-with-error"
      else if holds cfg msgs prop faults then "ok" else "FAIL follower-rule"
    | _, _, _ => "FAIL unparsable-observation"
  | _ =>
    if (leaderID? cfg).isNone && obs.startsWith "PANIC" then "ok" else "FAIL unparsable-observation"

def monitorCoord (cfg : Cfg) (evs : List Ev) (obs : String) : String :=
  let endB := activePhaseEndBlock cfg.block
  let hist := activeMsgs endB evs
  match splitWs obs with
  | c :: rest =>
    match (stripPrefix "cancel=" c).bind parseNats with
    | some [cb] =>
      if cb != endB then "FAIL routine-context-not-ended-at-active-phase-end"
      else match rest with
        | ["err"] =>
          if (hist.find? (acceptable cfg ((leaderID? cfg).getD 0))).isSome then "FAIL follower-rule" else "ok"
        | [l, p, f] =>
          if l != s!"leader={cfg.leader}" then "FAIL leader-differs-from-getLeader" else
          let r := monitorOne cfg hist s!"{p} {f} err=0"
          if r = "ok" then "ok" else r ++ " (active phase only)"
        | _ => "FAIL unparsable-observation"
    | _ => "FAIL routine-context-not-ended-at-active-phase-end"
  | [] => "FAIL unparsable-observation"

def monitor (op obs : String) : String :=
  match parseCoord op with
  | some (cfg, evs) => monitorCoord cfg evs obs
  | none =>
  match parseCase op, parseSeq op, parseRace op with
  | some (cfg, msgs), _, _ => monitorOne cfg msgs obs
  | _, some ws, _ =>
    let os := obs.splitOn " / "
    if os.length != ws.length then
      (if ws.any (fun w => (leaderID? w.1).isNone) && obs.startsWith "PANIC" then "ok"
       else "FAIL unparsable-observation")
    else
      match (ws.zip os).filterMap (fun (w, o) =>
          let r := monitorOne w.1 w.2 o
          if r = "ok" then none else some r) with
      | [] => "ok"
      | r :: _ => r ++ " (window of a long-lived executor)"
  | _, _, some (cfg, msgs, k) =>
    -- the loop processed msgs[:j] for some k ≤ j ≤ n before it saw the cancellation
    if (List.range (msgs.length - k + 1)).any (fun d => render (follower cfg (msgs.take (k + d))) == obs)
    then monitorOne cfg (msgs.take ((List.range (msgs.length - k + 1)).foldl
            (fun acc d => if render (follower cfg (msgs.take (k + d))) == obs && acc == msgs.length + 1
                          then k + d else acc) (msgs.length + 1))) obs
    else "FAIL result-of-no-prefix-of-the-history"
  | _, _, _ => if obs = "bad-op" then "ok" else "FAIL bad-op"

def main (args : List String) : IO UInt32 := driverMain model monitor args
