import KeepVerif.DriverLib
import KeepVerif.Model.C24
open KeepVerif KeepVerif.C24

def parseMsg (i : Nat) (s : String) : Option Msg :=
  match (s.splitOn ":").mapM String.toNat? with
  | some [k, n, sid, b, w, a] =>
    if sid < 256 then some ⟨k, n, sid, b, w, a, if a = 0 then 0 else i + 1⟩ else none
  | _ => none

def parseMsgs (s : String) : Option (List Msg) :=
  ((splitList s).zipIdx).mapM fun (t, i) => parseMsg i t

def parseCase (line : String) : Option (Cfg × List Msg) :=
  match splitWs line with
  | ["follow", seats, self, leader, block, allowed, msgs] => do
    let seats ← parseNats seats
    let self ← self.toNat?
    let leader ← leader.toNat?
    let block ← block.toNat?
    let allowed ← parseNats allowed
    let msgs ← parseMsgs msgs
    if seats.length > 255 then none
    pure (⟨seats, membersByOperator seats self, leader, block, allowed⟩, msgs)
  | _ => none

def showFault (f : Fault) : String :=
  (match f.type with | .idleness => "L" | .mistake => "M" | .impersonation => "I") ++ toString f.culprit

def showProp : Option (Nat × Nat) → String
  | none => "-"
  | some (a, t) => s!"{a}:{t}"

def model (line : String) : String :=
  match parseCase line with
  | none => "bad-op"
  | some (cfg, msgs) =>
    match follower cfg msgs with
    | none => "PANIC runtime error: index out of range [0] with length 0"
    | some (p, fs) =>
      s!"prop={showProp p} faults={showList (fs.map showFault)} err={if p.isNone then 1 else 0}"

def parseFault (s : String) : Option Fault :=
  match s.toList with
  | c :: rest => do
    let n ← (String.ofList rest).toNat?
    let t ← (if c = 'L' then some FaultType.idleness else if c = 'M' then some .mistake
             else if c = 'I' then some .impersonation else none)
    pure ⟨t, n⟩
  | [] => none

def parseProp (s : String) : Option (Option (Nat × Nat)) :=
  if s = "-" then some none else
  match (s.splitOn ":").mapM String.toNat? with
  | some [a, t] => some (some (a, t))
  | _ => none

def stripPrefix (pre s : String) : Option String :=
  if s.startsWith pre then some (s.drop pre.length).toString else none

def monitor (op obs : String) : String :=
  match parseCase op with
  | none => if obs = "bad-op" then "ok" else "FAIL bad-op"
  | some (cfg, msgs) =>
    match splitWs obs with
    | [p, f, e] =>
      match (stripPrefix "prop=" p).bind parseProp,
            (stripPrefix "faults=" f).bind (fun s => (splitList s).mapM parseFault),
            stripPrefix "err=" e with
      | some prop, some faults, some err =>
        if (err == "1") != prop.isNone then "FAIL error-without-idle-or-proposal-with-error"
        else if holds cfg msgs prop faults then "ok" else "FAIL follower-rule"
      | _, _, _ => "FAIL unparsable-observation"
    | _ =>
      if (leaderID? cfg).isNone && obs.startsWith "PANIC" then "ok" else "FAIL unparsable-observation"

def main (args : List String) : IO UInt32 := driverMain model monitor args
