import KeepVerif.DriverLib
import KeepVerif.Model.C34
open KeepVerif
open KeepVerif.C34

/-- concrete injective stand-in for the Bridge hash (never 0) -/
def drvH (u : Utxo) : Nat := (u.tid * 2 ^ 32 + u.idx) * 2 ^ 64 + u.value + 1

def parseUtxo (s : String) : Option Utxo :=
  match (s.splitOn ":").mapM String.toNat? with
  | some [t, i, v] => some ⟨t, i, v⟩
  | _ => none

/-- `E` = failing call -/
def parseUtxos (s : String) : Option (Option (List Utxo)) :=
  if s = "E" then some none else ((splitList s).mapM parseUtxo).map some

def parseOut (s : String) : Option Out :=
  match s.toList with
  | k :: rest =>
    match (String.ofList rest).toNat? with
    | some v =>
      if k = 'p' ∨ k = 'w' then some ⟨true, v⟩
      else if k = 'o' ∨ k = 'q' ∨ k = 's' then some ⟨false, v⟩ else none
    | none => none
  | [] => none

def parseMainTx (s : String) : Option (Nat × List Out) :=
  match s.splitOn "/" with
  | [t, o] => do
    let tid ← t.toNat?
    let outs ← if o = "_" then some [] else (o.splitOn "+").mapM parseOut
    pure (tid, outs)
  | _ => none

def lookupFirst {α} (tbl : List (Nat × α)) (k : Nat) : Option α :=
  (tbl.find? (fun p => p.1 == k)).map (·.2)

def parseReg (s : String) : Option (Option Nat) :=
  if s = "E" then some none
  else if s = "0" then some (some 0)
  else (parseUtxo s).map (fun u => some (drvH u))

def parseHist (s : String) : Option (Option (List Nat)) :=
  if s = "E" then some none else (parseNats s).map some

def parseRef (s : String) : Option Ref :=
  match (s.splitOn ".").mapM String.toNat? with
  | some [h, i] => some ⟨h, i⟩
  | _ => none

def parseRefs (s : String) : Option (List Ref) := (splitList s).mapM parseRef

def parseSyncTx (s : String) : Option (Nat × Ref) :=
  match s.splitOn "/" with
  | [t, r] => do pure ((← t.toNat?), (← parseRef r))
  | _ => none

structure MainIn where
  wallet : Option Nat
  hist : Option (List Nat)
  txs : List (Nat × List Out)

def parseMainIn (reg hist txs : String) : Option MainIn := do
  let w ← parseReg reg
  let h ← parseHist hist
  let t ← (splitList txs).mapM parseMainTx
  pure ⟨w, h, t⟩

def showMain : MainRes → String
  | .none => "none"
  | .utxo u => s!"utxo:{u.tid}:{u.idx}:{u.value}"
  | .errWallet => "err:wallet"
  | .errHistory => "err:history"
  | .errGetTx => "err:gettx"
  | .errNotFound => "err:notfound"

def parseMainRes (s : String) : Option MainRes :=
  if s = "none" then some .none
  else if s = "err:wallet" then some .errWallet
  else if s = "err:history" then some .errHistory
  else if s = "err:gettx" then some .errGetTx
  else if s = "err:notfound" then some .errNotFound
  else match s.splitOn ":" with
    | ["utxo", t, i, v] => do pure (.utxo ⟨(← t.toNat?), (← i.toNat?), (← v.toNat?)⟩)
    | _ => none

def showSync : SyncRes → String
  | .ok => "ok"
  | .errConf => "err:conf"
  | .errEmpty => "err:empty"
  | .errSpent => "err:spent"
  | .errMemp => "err:memp"
  | .errGetTx => "err:gettx"
  | .errDepLookup => "err:deplookup"
  | .errDepositSweep => "err:depositsweep"
  | .errMfsLookup => "err:mfslookup"
  | .errMovedFundsSweep => "err:movedfundssweep"

def allSync : List SyncRes :=
  [.ok, .errConf, .errEmpty, .errSpent, .errMemp, .errGetTx, .errDepLookup, .errDepositSweep,
   .errMfsLookup, .errMovedFundsSweep]

def parseSyncRes (s : String) : Option SyncRes := allSync.find? (fun r => showSync r == s)

def runMain (i : MainIn) : MainRes :=
  determineMainUtxo drvH i.wallet i.hist (lookupFirst i.txs)

/-- the chains of a `both` op: every defined transaction has a first input that is neither a
    deposit nor a moved funds sweep request; no mempool UTXOs. -/
def bothChains (i : MainIn) : Chains :=
  { firstInput := fun t => (lookupFirst i.txs t).map (fun _ => ⟨1000 + t, 0⟩)
    isDeposit := fun _ => some false
    isMfs := fun _ => some false }

structure SyncIn where
  main : Option Utxo
  conf : Option (List Utxo)
  memp : Option (List Utxo)
  chains : Chains

def parseSyncIn (m c p txs deps mfs derr merr : String) : Option SyncIn := do
  let main ← if m = "nil" then some none else (parseUtxo m).map some
  let conf ← parseUtxos c
  let memp ← parseUtxos p
  let t ← (splitList txs).mapM parseSyncTx
  let d ← parseRefs deps
  let f ← parseRefs mfs
  let de ← parseRefs derr
  let me ← parseRefs merr
  pure ⟨main, conf, memp,
    { firstInput := lookupFirst t
      isDeposit := fun r => if de.contains r then none else some (d.contains r)
      isMfs := fun r => if me.contains r then none else some (f.contains r) }⟩

/-- number of mempool queries the code makes: only for a fresh wallet whose confirmed query worked -/
def mempQueries (i : SyncIn) : Nat :=
  match i.conf, i.main with
  | some _, none => 1
  | _, _ => 0

def model (line : String) : String :=
  match splitWs line with
  | ["main", reg, hist, txs] =>
    match parseMainIn reg hist txs with
    | some i => showMain (runMain i)
    | none => "bad-op"
  | ["both", reg, hist, txs, conf] =>
    match parseMainIn reg hist txs, parseUtxos conf with
    | some i, some c =>
      match runMain i with
      | .none => "none " ++ showSync (ensureSynced none c (some []) (bothChains i))
      | .utxo u => showMain (.utxo u) ++ " " ++ showSync (ensureSynced (some u) c (some []) (bothChains i))
      | e => showMain e ++ " -"
    | _, _ => "bad-op"
  | ["sync", m, c, p, txs, deps, mfs, derr, merr] =>
    match parseSyncIn m c p txs deps mfs derr merr with
    | some i => showSync (ensureSynced i.main i.conf i.memp i.chains) ++ s!" memp={mempQueries i}"
    | none => "bad-op"
  | _ => "bad-op"

def verdict (b : Bool) (why : String) : String := if b then "ok" else "FAIL " ++ why

def monitor (op obs : String) : String :=
  match splitWs op with
  | ["main", reg, hist, txs] =>
    match parseMainIn reg hist txs, parseMainRes obs with
    | some i, some r => verdict (holdsMain drvH i.wallet i.hist (lookupFirst i.txs) r) "main-utxo-rule"
    | none, _ => "FAIL bad-op"
    | _, none => "FAIL unparsable-observation"
  | ["both", reg, hist, txs, conf] =>
    match parseMainIn reg hist txs, parseUtxos conf, splitWs obs with
    | some i, some c, [o1, o2] =>
      match parseMainRes o1 with
      | some r =>
        if !holdsMain drvH i.wallet i.hist (lookupFirst i.txs) r then "FAIL main-utxo-rule" else
        match r with
        | .none =>
          (match parseSyncRes o2 with
           | some s => verdict (holdsSync none c (some []) (bothChains i) s) "sync-fresh-rule"
           | none => "FAIL unparsable-observation")
        | .utxo u =>
          (match parseSyncRes o2 with
           | some s => verdict (holdsSync (some u) c (some []) (bothChains i) s) "sync-main-rule"
           | none => "FAIL unparsable-observation")
        | _ => verdict (o2 == "-") "sync-ran-after-error"
      | none => "FAIL unparsable-observation"
    | none, _, _ => "FAIL bad-op"
    | _, none, _ => "FAIL bad-op"
    | _, _, _ => "FAIL unparsable-observation"
  | ["sync", m, c, p, txs, deps, mfs, derr, merr] =>
    match parseSyncIn m c p txs deps mfs derr merr, splitWs obs with
    | some i, [o, _] =>
      match parseSyncRes o with
      | some s =>
        verdict (holdsSync i.main i.conf i.memp i.chains s)
          (if i.main.isSome then "sync-main-rule" else "sync-fresh-rule")
      | none => "FAIL unparsable-observation"
    | none, _ => "FAIL bad-op"
    | _, _ => "FAIL unparsable-observation"
  | _ => "FAIL bad-op"

def main (args : List String) : IO UInt32 := driverMain model monitor args
