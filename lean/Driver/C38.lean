import KeepVerif.DriverLib
import KeepVerif.Model.C38
open KeepVerif
open KeepVerif.C38

def parseFault : String → Option Fault
  | "" => some .none | "b" => some .failBefore | "a" => some .failAfter
  | "B" => some .crashBefore | "A" => some .crashAfter | "i" => some .idFail
  | _ => none

def digit? (c : Char) : Option Nat := if c.isDigit then some (c.toNat - '0'.toNat) else none

def parseOp (wallet : Bool) (s : String) : Option Op :=
  match s.toList with
  | ['r'] => some .restart
  | 'R' :: w :: i :: sh :: rest => do
    let w ← digit? w; let i ← digit? i; let sh ← digit? sh
    let f ← parseFault (String.ofList rest)
    if w < 1 || w > 4 || i < 1 || sh > 4 || (f == .idFail && !wallet) then none
    else some (.reg w i sh f)
  | 'X' :: w :: rest => do
    let w ← digit? w
    let f ← parseFault (String.ofList rest)
    if w < 1 || w > 4 || f == .idFail then none else some (.arch w f)
  | _ => none

def showRes : Res → String
  | .ok => "ok" | .eSave => "e:save" | .eId => "e:id" | .eNf => "e:nf" | .eArch => "e:arch"
  | .crash => "crash" | .restarted => "r"

def insertSorted (e : Nat × Nat) : List (Nat × Nat) → List (Nat × Nat)
  | [] => [e]
  | a :: r => if e.1 < a.1 || (e.1 == a.1 && e.2 ≤ a.2) then e :: a :: r else a :: insertSorted e r

def sortPairs (l : List (Nat × Nat)) : List (Nat × Nat) := l.foldr insertSorted []

def showSnapshot (c : Cache) : String :=
  let parts := [1, 2, 3, 4].filterMap fun w =>
    let l := sortPairs (signersOf c w)
    if l.isEmpty then none
    else some (s!"{w}=" ++ "+".intercalate (l.map fun e => s!"{e.1}.{e.2}"))
  if parts.isEmpty then "-" else ";".intercalate parts

def parseLine (line : String) : Option (Bool × List Op) :=
  match splitWs line with
  | [fam, _seed, steps] =>
    if fam = "wreg" then ((splitList steps).mapM (parseOp true)).map (true, ·)
    else if fam = "greg" then ((splitList steps).mapM (parseOp false)).map (false, ·)
    else none
  | _ => none

def model (line : String) : String :=
  match parseLine line with
  | some (wallet, ops) =>
    showList ((run wallet {} ops).map fun (r, c) => showRes r ++ "/" ++ showSnapshot c)
  | none => "bad-op"

def parseRes : String → Option Res
  | "ok" => some .ok | "e:save" => some .eSave | "e:id" => some .eId | "e:nf" => some .eNf
  | "e:arch" => some .eArch | "crash" => some .crash | "r" => some .restarted
  | _ => none

/-- split `res/snapshot` -/
def parseEntry (s : String) : Option (String × String) :=
  match s.splitOn "/" with
  | [r, snap] => some (r, snap)
  | _ => none

def parseSnapshot (s : String) : Option (List (Nat × List (Nat × Nat))) :=
  if s = "-" then some [] else
  (s.splitOn ";").mapM fun part =>
    match part.splitOn "=" with
    | [w, l] => do
      let w ← w.toNat?
      let es ← (l.splitOn "+").mapM fun e =>
        match e.splitOn "." with
        | [i, sh] => do let i ← i.toNat?; let sh ← sh.toNat?; pure (i, sh)
        | _ => none
      pure (w, es)
    | _ => none

def monitor (op obs : String) : String :=
  match parseLine op with
  | none => "FAIL bad-op"
  | some (wallet, ops) =>
    let entries := splitList obs
    if entries.any (fun e => (e.splitOn "!").length > 1) then "FAIL lookups-disagree"
    else if entries.any (fun e => (e.splitOn "?").length > 1) then "FAIL key-material-differs"
    else if entries.any (fun e => (e.splitOn "PANIC").length > 1) then "FAIL lookup-panic"
    else
    match entries.mapM parseEntry with
    | none => "FAIL unparsable-observation"
    | some es =>
      match es.mapM (fun e => do let r ← parseRes e.1; let sn ← parseSnapshot e.2; pure (r, sn)) with
      | none => "FAIL unparsable-observation"
      | some trace =>
        if trace.length ≠ ops.length then "FAIL observation-length"
        else if holdsTrace wallet [] [] ops trace then "ok" else "FAIL registry-rule"

def main (args : List String) : IO UInt32 := driverMain model monitor args
