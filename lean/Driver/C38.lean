import KeepVerif.DriverLib
import KeepVerif.Model.C38
open KeepVerif
open KeepVerif.C38

def parseFault : String → Option Fault
  | "" => some .none | "b" => some .failBefore | "a" => some .failAfter
  | "B" => some .crashBefore | "A" => some .crashAfter | "i" => some .idFail
  | _ => none

def digit? (c : Char) : Option Nat := if c.isDigit then some (c.toNat - '0'.toNat) else none

def parseOp (wallet : Bool) (s : String) : Option Op :=
  match s.toList with
  | ['r'] => some .restart
  | 'R' :: w :: i :: sh :: rest => do
    let w ← digit? w; let i ← digit? i; let sh ← digit? sh
    let f ← parseFault (String.ofList rest)
    if w < 1 || w > 4 || i < 1 || sh > 4 || (f == .idFail && !wallet) then none
    else some (.reg w i sh f)
  | 'X' :: w :: rest => do
    let w ← digit? w
    let f ← parseFault (String.ofList rest)
    if w < 1 || w > 4 || f == .idFail then none else some (.arch w f)
  | _ => none

def showRes : Res → String
  | .ok => "ok" | .eSave => "e:save" | .eId => "e:id" | .eNf => "e:nf" | .eArch => "e:arch"
  | .crash => "crash" | .restarted => "r"

def insertSorted (e : Nat × Nat) : List (Nat × Nat) → List (Nat × Nat)
  | [] => [e]
  | a :: r => if e.1 < a.1 || (e.1 == a.1 && e.2 ≤ a.2) then e :: a :: r else a :: insertSorted e r

def sortPairs (l : List (Nat × Nat)) : List (Nat × Nat) := l.foldr insertSorted []

def showSnapshot (c : Cache) : String :=
  let parts := [1, 2, 3, 4].filterMap fun w =>
    let l := sortPairs (signersOf c w)
    if l.isEmpty then none
    else some (s!"{w}=" ++ "+".intercalate (l.map fun e => s!"{e.1}.{e.2}"))
  if parts.isEmpty then "-" else ";".intercalate parts

/-- a step of the script: one op, or the concurrent group `P<w><i><s>` (register ∥ archive of the
    same wallet, gated so that the registration holds the registry mutex first). -/
inductive Tok where
  | one (op : Op)
  | par (w i s : Nat)

def parseTok (wallet : Bool) (s : String) : Option Tok :=
  match s.toList with
  | ['P', w, i, sh] => do
    let w ← digit? w; let i ← digit? i; let sh ← digit? sh
    if w < 1 || w > 4 || i < 1 || sh > 4 then none else some (.par w i sh)
  | _ => (parseOp wallet s).map .one

def parseLine (line : String) : Option (Bool × List Tok) :=
  match splitWs line with
  | [fam, _seed, steps] =>
    if fam = "wreg" || fam = "creg" then ((splitList steps).mapM (parseTok true)).map (true, ·)
    else if fam = "greg" then ((splitList steps).mapM (fun t => (parseOp false t).map Tok.one)).map (false, ·)
    else none
  | _ => none

/-- model of a script: a concurrent group is register then archive (each atomic under the registry
    mutex, in the order the harness forces); only the state at quiescence is observed. -/
def modelRun (wallet : Bool) : St → List Tok → List String
  | _, [] => []
  | s, .one op :: rest =>
    let (s', r) := step wallet s op
    (showRes r ++ "/" ++ showSnapshot s'.cache) :: modelRun wallet s' rest
  | s, .par w i sh :: rest =>
    let (s1, r1) := step wallet s (.reg w i sh .none)
    let (s2, r2) := step wallet s1 (.arch w .none)
    (showRes r1 ++ "+" ++ showRes r2 ++ "/" ++ showSnapshot s2.cache) :: modelRun wallet s2 rest

def model (line : String) : String :=
  match parseLine line with
  | some (wallet, toks) => showList (modelRun wallet {} toks)
  | none => "bad-op"

def parseRes : String → Option Res
  | "ok" => some .ok | "e:save" => some .eSave | "e:id" => some .eId | "e:nf" => some .eNf
  | "e:arch" => some .eArch | "crash" => some .crash | "r" => some .restarted
  | _ => none

/-- split `res/snapshot` -/
def parseEntry (s : String) : Option (String × String) :=
  match s.splitOn "/" with
  | [r, snap] => some (r, snap)
  | _ => none

def parseSnapshot (s : String) : Option (List (Nat × List (Nat × Nat))) :=
  if s = "-" then some [] else
  (s.splitOn ";").mapM fun part =>
    match part.splitOn "=" with
    | [w, l] => do
      let w ← w.toNat?
      let es ← (l.splitOn "+").mapM fun e =>
        match e.splitOn "." with
        | [i, sh] => do let i ← i.toNat?; let sh ← sh.toNat?; pure (i, sh)
        | _ => none
      pure (w, es)
    | _ => none

def parseSnapEntry (s : String) : Option (String × Snap) :=
  match s.splitOn "/" with
  | [r, snap] => (parseSnapshot snap).map (r, ·)
  | _ => none

/-- ops and trace handed to `holdsTrace`: a concurrent group becomes its two atomic steps; the
    snapshot between them is not observable and is reconstructed as "what a successful
    registration means": the previous snapshot plus the registered signer. -/
def expand (prev : Snap) : List Tok → List (String × Snap) → Option (List Op × List (Res × Snap))
  | [], [] => some ([], [])
  | .one op :: rest, (r, sn) :: tr => do
    let r ← parseRes r
    let (ops, trace) ← expand sn rest tr
    pure (op :: ops, (r, sn) :: trace)
  | .par w i sh :: rest, (r, sn) :: tr =>
    match r.splitOn "+" with
    | [a, b] => do
      let a ← parseRes a; let b ← parseRes b
      let hidden := if a == .ok then addSigner prev w (i, sh) else prev
      let (ops, trace) ← expand sn rest tr
      pure (.reg w i sh .none :: .arch w .none :: ops, (a, hidden) :: (b, sn) :: trace)
    | _ => none
  | _, _ => none

def monitor (op obs : String) : String :=
  match parseLine op with
  | none => "FAIL bad-op"
  | some (wallet, toks) =>
    let entries := splitList obs
    if entries.any (fun e => (e.splitOn "!").length > 1) then "FAIL lookups-disagree"
    else if entries.any (fun e => (e.splitOn "?").length > 1) then "FAIL key-material-differs"
    else if entries.any (fun e => (e.splitOn "PANIC").length > 1) then "FAIL lookup-panic"
    else
    match entries.mapM parseSnapEntry with
    | none => "FAIL unparsable-observation"
    | some es =>
      if es.length ≠ toks.length then "FAIL observation-length" else
      match expand [] toks es with
      | none => "FAIL unparsable-observation"
      | some (ops, trace) =>
        if holdsTrace wallet [] [] ops trace then "ok" else "FAIL registry-rule"

def main (args : List String) : IO UInt32 := driverMain model monitor args
