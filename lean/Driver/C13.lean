import KeepVerif.DriverLib
import KeepVerif.Model.C13
open KeepVerif
open KeepVerif.C12
open KeepVerif.C13

def selfSigId : Nat := 1000000

def protoOf : String → Option Proto
  | "beacon" => some .beacon | "tecdsa" => some .tecdsa | "inact" => some .inactivity
  | _ => none

/-- idx:netKey:msgKey:sess:hash:kind, `pos` = position in the history = signature identifier -/
def parseMsg13 (pos : Nat) (s : String) : Option Msg :=
  match (s.splitOn ":").mapM String.toNat? with
  | some [idx, nk, mk, se, h, kind] =>
    if idx ≤ 255 && h ≤ 255 && kind ≤ 4 then
      some { idx := UInt8.ofNat idx, netKey := nk, msgKey := mk, session := se, aux1 := h, aux2 := pos,
             action := kind, hasSig := true }
    else none
  | _ => none

def parseMsgs (ss : List String) : Option (List Msg) :=
  (ss.zipIdx).mapM (fun (s, i) => parseMsg13 i s)

def u8list (xs : List Nat) : Option (List UInt8) :=
  if xs.all (· ≤ 255) then some (xs.map UInt8.ofNat) else none

structure Case13 where
  proto : Proto
  ctx : Ctx
  params : Params
  pref : Nat
  hist : List Msg

def parseCase13 (line : String) : Option Case13 :=
  match splitWs line with
  | [proto, ops, gs, ia, dq, self, sess, pref, n, h, q, msgs] => do
    let p ← protoOf proto
    let ops ← parseNats ops
    let gs ← gs.toNat?
    let ia ← (← parseNats ia) |> u8list
    let dq ← (← parseNats dq) |> u8list
    let self ← self.toNat?
    let sess ← sess.toNat?
    let pref ← pref.toNat?
    let n ← n.toNat?
    let h ← h.toNat?
    let q ← q.toNat?
    let hist ← parseMsgs (splitList msgs)
    if gs > 255 || ops.length > 255 || self > 255 || pref > 255 || n > 1000 || h > 1000 || q > 1000
        || hist.length > 500 || ops.any (· > 255) then none
    else
      some { proto := p, pref := pref, hist := hist, params := ⟨n, h, q⟩,
             ctx := { ops := ops, group := ⟨gs, ia, dq⟩, selfs := [UInt8.ofNat self], session := sess,
                      aux1 := 0, aux2 := 0, leaderID := 0, allowed := [], doneSigners := [] } }
  | _ => none

/-- A-ecdsa as the harness realises it: signature number `s` verifies for (hash, key) iff it was made
    (kind 0) by that key — one of the real keys 1..4 — over that hash. -/
def verifyOf (hist : List Msg) : Verify := fun h s k =>
  match hist[s]? with
  | some m => m.action == 0 && decide (1 ≤ m.msgKey) && decide (m.msgKey ≤ 4) && m.msgKey == k && m.aux1 == h
  | none => false

def sortSigs (xs : List (UInt8 × Nat)) : List (UInt8 × Nat) :=
  (xs.toArray.qsort (fun a b => a.1 < b.1)).toList

def showSigs (xs : List (UInt8 × Nat)) : String :=
  showList ((sortSigs xs).map fun e =>
    s!"{e.1.toNat}:{if e.2 = selfSigId then "self" else toString e.2}")

def model (line : String) : String :=
  match parseCase13 line with
  | none => "bad-op"
  | some c =>
    let r := pipeline id (verifyOf c.hist) c.proto c.ctx c.params selfSigId c.pref c.hist
    showSigs r.1 ++ " " ++ (if r.2 then "submit" else "nosubmit")

def parseEntry (s : String) : Option (UInt8 × Nat) :=
  match s.splitOn ":" with
  | [i, src] => do
    let i ← i.toNat?
    if i > 255 then none
    let v ← (if src = "self" then some selfSigId else src.toNat?)
    pure (UInt8.ofNat i, v)
  | _ => none

def monitor (op obs : String) : String :=
  match parseCase13 op with
  | none => if obs == "bad-op" then "ok" else "FAIL bad-op"
  | some c =>
    match splitWs obs with
    | [sigs, verdict] =>
      match (splitList sigs).mapM parseEntry, verdict with
      | some es, "submit" | some es, "nosubmit" =>
        if holds id (verifyOf c.hist) c.proto c.ctx c.params selfSigId c.pref c.hist es (verdict == "submit")
        then "ok" else "FAIL support-rule"
      | _, _ => "FAIL unexpected-observation"
    | _ => "FAIL unexpected-observation"

def main (args : List String) : IO UInt32 := driverMain model monitor args
