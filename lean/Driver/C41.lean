import KeepVerif.DriverLib
import KeepVerif.Model.C41
open KeepVerif KeepVerif.C41

/-! Driver for C41: the exponent group modulo the real curve order and the symbolic AEAD. -/

def N : Nat := Gen.C41.curveOrder

def isLowerHex (s : String) : Bool :=
  s.toList.all fun c => ('0' ≤ c && c ≤ '9') || ('a' ≤ c && c ≤ 'f')

def parseBytes (s : String) : Option Bytes :=
  if !isLowerHex s then none else (parseHex (if s = "" then "-" else s)).map (·.map fun b => Cell.byte b.toNat)

def parseScalar (s : String) : Option Nat :=
  if s = "-" then some 0
  else if s = "" || !isLowerHex s || s.length % 2 ≠ 0 || s.length > 96 then none
  else parseHexNat s

def small (s : String) (max : Nat) : Option Nat :=
  if s.isEmpty || s.length > 8 || !s.toList.all Char.isDigit then none
  else match s.toNat? with
    | some v => if v ≤ max then some v else none
    | none => none

def parsePlain (s : String) : Option Bytes :=
  match s.toList with
  | 'x' :: rest =>
    match parseBytes (String.ofList rest) with
    | some b => if b.length ≤ 4096 then some b else none
    | none => none
  | 'g' :: rest =>
    match (String.ofList rest).splitOn "." with
    | [n, seed] => do
      let n ← small n (2 ^ 21)
      let seed ← small seed 255
      pure ((List.range n).map fun i => Cell.byte ((seed + 131 * i + 7 * (i / 256)) % 256))
    | _ => none
  | _ => none

def parseMod (ctLen : Nat) (s : String) : Option Mod :=
  match s.toList with
  | 'x' :: rest =>
    match (String.ofList rest).splitOn "." with
    | [p, m] => do
      if ctLen = 0 then none
      let p ← small p (ctLen - 1)
      let m ← small m 255
      pure (.xor p m)
    | _ => none
  | 't' :: rest => if rest.isEmpty then none else (small (String.ofList rest) ctLen).map .trunc
  | 'e' :: rest => if rest.isEmpty then none else (small (String.ofList rest) 64).map .extend
  | _ => none

def parseCase (line : String) : Option (Case × List Mod) :=
  match line.splitOn " " with
  | ["ec", a, b, c, pt, nonce, mods] => do
    let a ← parseScalar a
    let b ← parseScalar b
    let c ← parseScalar c
    let pt ← parsePlain pt
    let nonce ← parseBytes nonce
    if nonce.length ≠ 24 || nonce.isEmpty then none
    let mods ← (splitList mods).mapM (parseMod (24 + 16 + pt.length))
    pure (⟨a, b, c, pt, nonce⟩, mods)
  | _ => none

def tf (b : Bool) : String := if b then "t" else "f"

def showBytes (b : Bytes) : String := showHex (b.map fun c => UInt8.ofNat c.toNat)

def model (line : String) : String :=
  match parseCase line with
  | none => "bad-op"
  | some (cs, mods) =>
    let r := runCase (zmodGroup N) (K := Nat) id symAEAD cs mods
    let dec := match r.dec with
      | some m => s!"ok:{m.length}:{digest m}"
      | none => "err"
    let ms := if r.mods.isEmpty then "-" else String.ofList r.mods
    let back := match r.back with
      | some m => s!"ok:{m.length}:{digest m}"
      | none => "err"
    s!"agree={tf r.agree} ref={tf r.ref} ct={r.ctLen}:{showBytes r.ctHead} dec={dec} wrong={r.wrong} mods={ms} back={back} match={tf r.matchC}{tf r.matchA}{tf r.matchBC}{tf r.matchCA}"

def field (toks : List String) (name : String) : Option String :=
  toks.findSome? fun t => if t.startsWith (name ++ "=") then some ((t.drop (name.length + 1)).toString) else none

def monitor (op obs : String) : String :=
  match parseCase op with
  | none => if obs = "bad-op" then "ok" else "FAIL bad-op"
  | some (cs, mods) =>
    let toks := obs.splitOn " "
    match field toks "agree", field toks "ref", field toks "ct", field toks "dec", field toks "wrong",
          field toks "mods", field toks "match", field toks "back" with
    | some ag, some rf, some ct, some dec, some wr, some ms, some mt, some bk =>
      let ctLen := ((ct.splitOn ":").head?.bind String.toNat?).getD 0
      let decOk := dec == s!"ok:{cs.pt.length}:{digest cs.pt}"
      let o : ImplObs := {
        agree := ag == "t", ref := rf == "t", ctLen := ctLen, decOk := decOk,
        wrong := wr.toList.headD '?', mods := if ms = "-" then [] else ms.toList,
        matchC := mt.toList[0]? == some 't', matchA := mt.toList[1]? == some 't',
        backOk := bk == s!"ok:{cs.pt.length}:{digest cs.pt}",
        matchBC := mt.toList[2]? == some 't', matchCA := mt.toList[3]? == some 't' }
      if holds N cs mods o then "ok"
      else if !(o.agree && o.ref) then "FAIL keys-disagree"
      else if !decOk || !o.backOk then "FAIL decrypt-of-encrypt-is-not-the-plaintext"
      else if !(o.matchC == decide (cs.c % N = cs.a % N)) || !o.matchA
           || !(o.matchBC == decide (cs.c % N = cs.b % N)) || !(o.matchCA == decide (cs.a % N = cs.c % N))
        then "FAIL key-matching-wrong"
      else "FAIL tampered-or-foreign-ciphertext-handling"
    | _, _, _, _, _, _, _, _ => "FAIL unparsable-observation"

def main (args : List String) : IO UInt32 := driverMain model monitor args
