import KeepVerif.DriverLib
import KeepVerif.Model.C07
open KeepVerif
open KeepVerif.C07

namespace DrvC07

def parseMsg (seq : Nat) (s : String) : Option Msg :=
  match (s.splitOn ".").mapM String.toNat? with
  | some [k, sender, op, q] => some ⟨k, sender, op, q, seq⟩
  | _ => none

def parseEvents (s : String) : Option (List Ev) :=
  let rec go (seq : Nat) : List String → Option (List Ev)
    | [] => some []
    | t :: ts =>
      if t = ">" then (go (seq + 1) ts).map (Ev.next :: ·)
      else do
        let m ← parseMsg seq t
        let rest ← go (seq + 1) ts
        pure (Ev.recv m :: rest)
  go 0 (splitList s)

def parsePMsgs (s : String) : Option (List PMsg) :=
  let rec go (seq : Nat) : List String → Option (List PMsg)
    | [] => some []
    | t :: ts => do
      match (t.splitOn ".").mapM String.toNat? with
      | some [k, sender, op, q, sigop] =>
        let rest ← go (seq + 1) ts
        pure (⟨k, sender, op, q, sigop, seq⟩ :: rest)
      | _ => none
  go 0 (splitList s)

def msgsOf (evs : List Ev) : List Msg :=
  evs.filterMap fun e => match e with | .recv m => some m | .next => none

def showRecvd (l : List Msg) : String :=
  showList (l.map fun m => s!"{m.sender}.{m.seq}")

def showOpt : Option Nat → String
  | some k => toString k
  | none => "nil"

def modelRecv (n self : Nat) (excl seats : List Nat) (sess : Nat) (evs : List Ev) : String :=
  let g := memberGroup n self excl
  let s := run self sess g seats evs
  let rs := (List.range 6).map fun k => s!"r{k}={showRecvd (received s.hist k)}"
  s!"st={s.idx} can={if canTransition s.idx g s.hist then 1 else 0} n={s.hist.length} " ++ " ".intercalate rs

def operatingOthers (n : Nat) (excl : List Nat) : List Nat :=
  (List.range' 1 n).filter (fun m => !excl.contains m)

def model (line : String) : String :=
  match splitWs line with
  | ["conv", seed, idx, key] =>
    match seed.toNat?, idx.toNat?, key.toNat? with
    | some seed, some idx, some key =>
      s!"k={toKey seed idx} rt={toIndex seed (toKey seed idx)} i={toIndex seed key}"
    | _, _, _ => "bad-op"
  | ["parties", n, self, excl, seed] =>
    match n.toNat?, self.toNat?, parseNats excl, seed.toNat? with
    | some n, some self, some excl, some seed =>
      let g := memberGroup n self excl
      let keys := partyKeys seed g
      s!"op={showList g.operating} keys={showList keys} own={showOpt (ownKey seed self g)} " ++
      s!"mis={showList (misbehaved g)} rt={showList (keys.map (toIndex seed))}"
    | _, _, _, _ => "bad-op"
  | ["recv", n, self, excl, seats, sess, evs] =>
    match n.toNat?, self.toNat?, parseNats excl, parseNats seats, sess.toNat?, parseEvents evs with
    | some n, some self, some excl, some seats, some sess, some evs => modelRecv n self excl seats sess evs
    | _, _, _, _, _, _ => "bad-op"
  | ["exec", n, self, excl] =>
    match n.toNat?, self.toNat?, parseNats excl with
    | some n, some self, some excl =>
      -- the genuine first messages of everybody except self and the excluded others are delivered
      let g := memberGroup n self excl
      let senders := (List.range' 1 n).filter (fun m => !(m == self) && !excl.contains m)
      let evs := senders.map fun m => Ev.recv ⟨0, m, m, 1, m⟩
      let s := run self 1 g (List.range' 1 n) evs
      s!"eph=1 r1={if canTransition 0 g s.hist then "reached" else "stuck"}"
    | _, _, _ => "bad-op"
  | ["pub", n, self, dq, seats, sess, msgs] =>
    match n.toNat?, self.toNat?, parseNats dq, parseNats seats, sess.toNat?, parsePMsgs msgs with
    | some n, some self, some dq, some seats, some sess, some ms =>
      let g := groupWithDQ n dq
      let h := runPub self sess g seats ms
      s!"can={if canTransitionPub g h then 1 else 0} n={h.length} r5={showRecvd (receivedPub h)}"
    | _, _, _, _, _, _ => "bad-op"
  | ["run", n, t, excl, _seed, _mode] =>
    match n.toNat?, t.toNat?, parseNats excl with
    | some n, some t, some excl =>
      let op := operatingOthers n excl
      let mis := (List.range' 1 n).filter (fun m => excl.contains m)
      if t ≤ op.length ∧ 2 ≤ op.length then
        s!"ok={showList op} agree=1 mis={showList mis} ks=1 exjoin=-"
      else "SKIP"
    | _, _, _ => "bad-op"
  | _ => "bad-op"

/-- `key=value` fields of an observation line -/
def field (obs : List String) (name : String) : Option String :=
  obs.findSome? fun t =>
    if t.startsWith (name ++ "=") then some (t.drop (name.length + 1)).toString else none

def parsePairs (s : String) : Option (List (Nat × Nat)) :=
  (splitList s).mapM fun t =>
    match (t.splitOn ".").mapM String.toNat? with
    | some [a, b] => some (a, b)
    | _ => none

def monitor (op obs : String) : String :=
  let o := splitWs obs
  if obs.startsWith "PANIC" then "FAIL implementation-panicked" else
  if obs = "HANG" then "FAIL implementation-hung" else
  match splitWs op with
  | ["conv", seed, idx, _key] =>
    match seed.toNat?, idx.toNat?, (field o "k").bind String.toNat?, (field o "rt").bind String.toNat? with
    | some seed, some idx, some k, some rt =>
      if k == seed + idx && (idx ≥ 256 || rt == idx) then "ok" else "FAIL party-id-roundtrip"
    | _, _, _, _ => "FAIL unparsable-observation"
  | ["parties", n, self, excl, seed] =>
    match n.toNat?, self.toNat?, parseNats excl, seed.toNat?,
          (field o "op").bind parseNats, (field o "keys").bind parseNats, field o "own",
          (field o "mis").bind parseNats, (field o "rt").bind parseNats with
    | some n, some self, some excl, some seed, some operating, some keys, some own, some mis, some rt =>
      let own? := if own = "nil" then some none else own.toNat?.map some
      match own? with
      | some own =>
        if holdsParties n self excl seed operating keys own mis rt then "ok"
        else "FAIL operating-set-or-party-keys"
      | none => "FAIL unparsable-observation"
    | _, _, _, _, _, _, _, _, _ => "FAIL unparsable-observation"
  | ["recv", n, self, excl, seats, sess, evs] =>
    match n.toNat?, self.toNat?, parseNats excl, parseNats seats, sess.toNat?, parseEvents evs with
    | some n, some self, some excl, some seats, some sess, some evs =>
      let lists := (List.range 6).mapM fun k => (field o s!"r{k}").bind parsePairs
      match lists, (field o "st").bind String.toNat?, field o "can" with
      | some lists, some st, some can =>
        if holdsRecv self sess (memberGroup n self excl) seats evs st (can == "1") lists then "ok"
        else "FAIL unadmitted-or-duplicate-message-or-wrong-CanTransition"
      | _, _, _ => "FAIL unparsable-observation"
    | _, _, _, _, _, _ => "FAIL bad-op"
  | ["exec", _n, _self, _excl] =>
    match field o "r1" with
    | some r =>
      if holdsExec (r == "reached") then "ok"
      else "FAIL Execute-did-not-disqualify-exactly-the-excluded-members:" ++ r
    | none => "FAIL unparsable-observation"
  | ["pub", n, self, dq, seats, sess, msgs] =>
    match n.toNat?, self.toNat?, parseNats dq, parseNats seats, sess.toNat?, parsePMsgs msgs,
          (field o "r5").bind parsePairs, field o "can" with
    | some n, some self, some dq, some seats, some sess, some ms, some l, some can =>
      if holdsPub self sess (groupWithDQ n dq) seats ms (can == "1") l then "ok"
      else "FAIL publication-unadmitted-or-duplicate-signature-or-wrong-CanTransition"
    | _, _, _, _, _, _, _, _ => "FAIL unparsable-observation"
  | ["run", n, t, excl, _seed, _mode] =>
    match n.toNat?, t.toNat?, parseNats excl, (field o "ok").bind parseNats, field o "agree",
          field o "mis", field o "ks", field o "exjoin" with
    | some n, some t, some excl, some okm, some agree, some mis, some ks, some exjoin =>
      let op := operatingOthers n excl
      let expMis := showList ((List.range' 1 n).filter (fun m => excl.contains m))
      let obsv : RunObs := ⟨okm, agree == "1", (if mis = "differ" || mis = "none" then none else parseNats mis),
        ks == "1", (parseNats exjoin).getD [0]⟩
      if holdsRun n t excl obsv then "ok"
      else if exjoin ≠ "-" then "FAIL excluded-member-joined"
      else if agree ≠ "1" && okm.length > 0 then "FAIL wallet-keys-differ"
      else if okm.length > 0 && mis ≠ expMis then "FAIL misbehaved-lists"
      else if ks ≠ "1" then "FAIL party-keys-stored"
      else if t ≤ op.length && 2 ≤ op.length && okm != op then "FAIL operating-member-did-not-complete"
      else "FAIL run-monitor"
    | _, _, _, _, _, _, _, _ => "FAIL unparsable-observation"
  | _ => "FAIL bad-op"

end DrvC07

def main (args : List String) : IO UInt32 := driverMain DrvC07.model DrvC07.monitor args
