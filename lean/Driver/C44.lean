import KeepVerif.DriverLib
import KeepVerif.Model.C44
open KeepVerif
open KeepVerif.C44

def parseFlags : String → Option Flags
  | "m" => some ⟨false, false, false, false⟩
  | "M" => some ⟨false, true, false, false⟩
  | "t" => some ⟨false, false, true, false⟩
  | "d" => some ⟨false, false, false, true⟩
  | "x" => some ⟨false, false, true, true⟩
  | "n" => some ⟨true, false, false, false⟩
  | _ => none

def parseSrc (allowEmpty allowInvalid : Bool) : Char → Option Src
  | '-' => some .unset
  | 'f' => some .file
  | 'F' => some .flag
  | 'b' => some .both
  | 'e' => if allowEmpty then some .emptyFile else none
  | 'x' => if allowInvalid then some .invalid else none
  | _ => none

def usesFlag : Src → Bool
  | .flag | .both => true
  | _ => false

structure Case where
  f : Flags
  peers : Src
  electrum : Src
  cs : List Src
  ts : List Src

def parseCase (line : String) : Option Case :=
  match splitWs line with
  | ["cfg", n, p, e, c, t] =>
    match parseFlags n, p.toList, e.toList with
    | some f, [pc], [ec] =>
      match parseSrc true false pc, parseSrc false false ec, c.toList.mapM (parseSrc false true),
            t.toList.mapM (parseSrc false false) with
      | some p, some e, some cs, some ts =>
        if cs.length ≠ Gen.C44.contractNames.length || ts.length ≠ Gen.C44.electrumTimeoutFields then none
        else if f.nilFlags && (usesFlag p || usesFlag e || cs.any usesFlag || ts.any usesFlag) then none
        else some ⟨f, p, e, cs, ts⟩
      | _, _, _, _ => none
    | _, _, _ => none
  | _ => none

def netName (tbl : List String) (n : Nat) : String := tbl.getD n "?"

def showVal (tbl : List String) : Val → String
  | .none => "none" | .file => "file" | .flag => "flag" | .invalid => "invalid"
  | .dflt n => "default:" ++ netName tbl n

def showContract : Val → Char
  | .none => '-' | .file => 'f' | .flag => 'F' | .invalid => 'x' | .dflt _ => 'D'

def showT : TVal → Char
  | .file => 'f' | .flag => 'F' | .flagDefault => 'd' | .zero => '0'

def parseT : Char → Option TVal
  | 'f' => some .file | 'F' => some .flag | 'd' => some .flagDefault | '0' => some .zero | _ => none

def showOut (o : Out) : String :=
  match o.rc with
  | .flags => "rc=err:flags"
  | rc =>
    let r := if rc = .ok then "ok" else "err:validation"
    s!"rc={r} eth={o.eth} btc={o.btc} peers={showVal Gen.C44.networkNames o.peers} electrum={showVal Gen.C44.bitcoinNameOf o.electrum} contracts={String.ofList (o.contracts.map showContract)} etimeouts={String.ofList (o.timeouts.map showT)}"

def model (line : String) : String :=
  match parseCase line with
  | some c => showOut (readConfig c.f c.peers c.electrum c.cs c.ts)
  | none => "bad-op"

def field44 (obs key : String) : Option String :=
  (splitWs obs).findSome? fun t =>
    match t.splitOn "=" with
    | [k, v] => if k = key then some v else none
    | _ => none

def parseVal (tbl : List String) (s : String) : Option Val :=
  match s with
  | "none" => some .none | "file" => some .file | "flag" => some .flag | "invalid" => some .invalid
  | _ =>
    match s.splitOn ":" with
    | ["default", n] => (tbl.idxOf? n).map .dflt
    | _ => none

def parseContract (i : Nat) : Char → Option Val
  | '-' => some .none | 'f' => some .file | 'F' => some .flag | 'x' => some .invalid
  | 'D' => some (.dflt i)
  | _ => none

def parseContracts (s : String) : Option (List Val) :=
  (s.toList.zipIdx).mapM fun (c, i) => parseContract i c

def monitor (op obs : String) : String :=
  match parseCase op with
  | none => if obs = "bad-op" then "ok" else "FAIL bad-op-accepted"
  | some c =>
    if obs = "rc=err:flags" then
      (if holds c.f c.peers c.electrum c.cs c.ts ⟨.flags, 0, 0, .none, .none, [], []⟩ then "ok"
       else "FAIL accepted-flag-combination-rejected")
    else
    match field44 obs "rc", (field44 obs "eth").bind String.toNat?, (field44 obs "btc").bind String.toNat?,
          (field44 obs "peers").bind (parseVal Gen.C44.networkNames),
          (field44 obs "electrum").bind (parseVal Gen.C44.bitcoinNameOf),
          (field44 obs "contracts").bind parseContracts,
          (field44 obs "etimeouts").bind (fun t => t.toList.mapM parseT) with
    | some rc, some eth, some btc, some p, some e, some cs, some ts =>
      let rc' := if rc = "ok" then Rc.ok else Rc.validation
      if holds c.f c.peers c.electrum c.cs c.ts ⟨rc', eth, btc, p, e, cs, ts⟩ then "ok"
      else "FAIL explicit-value-overridden-or-networks-inconsistent"
    | _, _, _, _, _, _, _ => "FAIL unparsable-observation"

def main (args : List String) : IO UInt32 := driverMain model monitor args
