import KeepVerif.DriverLib
import KeepVerif.Model.C28
open KeepVerif KeepVerif.Script KeepVerif.C28

/-- digest = exactly the arguments of the signature hash (ideal hash: equal iff arguments equal) -/
abbrev Dg := Bytes × UInt8 × Bool × Int

structure Case where
  kind : Kind
  dep : Deposit
  pk : Bytes
  pkh : Bytes
  flavor : String
  txLock : Nat
  seq : Nat
  sh : Bytes
  nested : Bool
  sh2 : Bytes

def parseCase (line : String) : Option Case :=
  match splitWs line with
  | ["spend", kind, depositor, extra, blind, wpkh, rpkh, lt, _sk, pk, pkh, flavor, txlock, seq, sh, _warm, sh2] => do
    let k ← (if kind = "p2sh" then some Kind.p2sh
             else if kind = "p2wsh" || kind = "nested" then some Kind.p2wsh else none)
    let sh2 ← parseHex sh2
    let depositor ← parseHex depositor
    let extra ← (if extra = "-" then some none else (parseHex extra).map some)
    let blind ← parseHex blind
    let wpkh ← parseHex wpkh
    let rpkh ← parseHex rpkh
    let lt ← parseHex lt
    let pk ← parseHex pk
    let pkh ← parseHex pkh
    let txlock ← txlock.toNat?
    let seq ← seq.toNat?
    let sh ← parseHex sh
    let dep : Deposit := ⟨depositor, extra, blind, wpkh, rpkh, lt⟩
    some ⟨k, dep, pk, pkh, flavor, txlock, seq, sh, kind = "nested", sh2⟩
  | _ => none

def baseAmount : Int := 10000

def hashTypeOf (flavor : String) : UInt8 :=
  if flavor = "ht2" then 2 else if flavor = "ht0" then 0 else 1

/-- does the (flavoured) signature verify against the digest it was made for -/
def flavorValid (flavor : String) : Bool :=
  flavor = "good" || flavor = "highs" || flavor = "ht2" || flavor = "ht0" || flavor = "wrongamt"

def ctxOf (c : Case) (script : Bytes) : Ctx Dg :=
  let wit := c.kind == Kind.p2wsh
  let signed : Dg := (script, hashTypeOf c.flavor, wit, if wit then baseAmount else 0)
  { hash160 := fun x => if x == c.pk then c.pkh else if x == script && !wit then c.sh
      else if c.nested && x == p2wsh c.sh then c.sh2 else []
    sha256 := fun x => if x == script && wit then c.sh else []
    sigEnc := fun _ => if c.flavor = "highs" then some Err.sigHighS else none
    parsePk := fun _ => true
    sighash := fun code ht w amt => (code, ht, w, amt)
    verify := fun pk _ dg => flavorValid c.flavor && pk == c.pk && dg == signed
    locktime := c.txLock
    sequence := c.seq
    amount := if c.flavor = "wrongamt" then baseAmount + 1 else baseAmount }

def sigOf (flavor : String) : Bytes :=
  if flavor = "empty" then [] else [0x30, hashTypeOf flavor]

def model (line : String) : String :=
  match parseCase line with
  | none => "bad-op"
  | some c =>
    match C28.script c.dep with
    | none => "err:script"
    | some script =>
      let cx := ctxOf c script
      let r := if c.nested then
          -- P2SH-nested P2WSH: scriptSig = one push of the witness program, witness as for P2WSH
          verifyInput cx (pushData (p2wsh c.sh)) [sigOf c.flavor, c.pk, script] (p2sh c.sh2)
        else spend cx c.kind script (sigOf c.flavor) c.pk
      let lock := if c.nested then p2sh c.sh2 else lockingScript c.kind c.sh
      match r with
      | .error .unsupported => "SKIP"
      | _ =>
        "script=" ++ showHex script ++ " lock=" ++ showHex lock ++ " " ++
          showResult r

/-- the signature is a valid, standard one for this spend (monitor's notion, from the op line) -/
def sigGoodOf (c : Case) : Bool :=
  let wit := c.kind == Kind.p2wsh
  (c.flavor = "good" || c.flavor = "ht2" || (c.flavor = "wrongamt" && !wit)) &&
  (isCompressedPk c.pk || (!wit && isUncompressedPk c.pk))

def hasInfix (needle : Bytes) : Bytes → Bool
  | [] => needle.isEmpty
  | b :: rest => needle.isPrefixOf (b :: rest) || hasInfix needle rest

/-- the script embeds depositor, blinding factor and (if present) the extra data as dropped pushes -/
def embedsFields (d : Deposit) (script : Bytes) : Bool :=
  ([0x14] ++ d.depositor ++ [0x75]).isPrefixOf script &&
  hasInfix ([0x08] ++ d.blinding ++ [0x75]) script &&
  (match d.extra with
   | some e => hasInfix ([0x75, 0x20] ++ e ++ [0x75, 0x08]) script
   | none => hasInfix ([0x14] ++ d.depositor ++ [0x75, 0x08]) script)

def monitor (op obs : String) : String :=
  match parseCase op with
  | none => "FAIL bad-op"
  | some c =>
    if obs = "err:script" then
      if c.dep.depositor.length ≠ 20 then "ok" else "FAIL script-error-for-valid-deposit"
    else if c.dep.depositor.length ≠ 20 then "FAIL script-built-for-invalid-depositor"
    else
      match splitWs obs with
      | [scr, lock, verdict] =>
        let acc := verdict = "accept"
        let scriptB := parseHex ((scr.drop 7).toString)
        let lockB := parseHex ((lock.drop 5).toString)
        let expectLock := if c.nested then p2sh c.sh2 else lockingScript c.kind c.sh
        if !acc && !verdict.startsWith "reject:" then "FAIL unparsable-observation"
        else if !scr.startsWith "script=" || !lock.startsWith "lock=" then "FAIL unparsable-observation"
        else if (scriptB.map (embedsFields c.dep)) != some true then
          "FAIL script-does-not-embed-depositor-blinding-extra-data"
        else if lockB != some expectLock then
          -- the output the depositor funded (hash of the specified script) is not the one generated
          "FAIL locking-script-differs-from-funded-deposit-output"
        else if holds c.dep c.pkh (sigGoodOf c) c.txLock c.seq acc then "ok"
        else
          match role c.dep c.pkh with
          | .wallet => "FAIL wallet-key-spend-" ++ verdict
          | .refund => "FAIL refund-key-spend-" ++ verdict
          | .stranger => "FAIL stranger-key-spend-" ++ verdict
      | _ => "FAIL unparsable-observation"

def main (args : List String) : IO UInt32 := driverMain model monitor args
