import KeepVerif.DriverLib
import KeepVerif.Model.C33
open KeepVerif
open KeepVerif.C33

/-- the model's clock: ages on the op line are relative to it -/
def drvNow : Nat := 10000000000

def colon (s : String) : List String := s.splitOn ":"

def lookupFirst {κ α} [BEq κ] (tbl : List (κ × α)) (k : κ) : Option α :=
  (tbl.find? (fun p => p.1 == k)).map (·.2)

/-! ## deposits -/

def parseDepEvent (s : String) : Option DepEvent :=
  match (colon s).mapM String.toNat? with
  | some [b, w, t, i] => some ⟨b, w, t, i⟩
  | _ => none

/-- `E` = failing call -/
def parseOrE {α} (s : String) (p : String → Option α) : Option (Option (List α)) :=
  if s = "E" then some none else ((splitList s).mapM p).map some

def parseDepReq (s : String) : Option ((Nat × Nat) × Lookup DepReq) :=
  match colon s with
  | [t, i, a, sw] => do
    let t ← t.toNat?
    let i ← i.toNat?
    if a = "E" then pure ((t, i), .err) else
    let a ← a.toNat?
    let sw ← sw.toNat?
    pure ((t, i), .found ⟨drvNow - a, sw⟩)
  | _ => none

def parseConf (s : String) : Option (Nat × Nat) :=
  match colon s with
  | [t, n] => do
    let t ← t.toNat?
    if n = "E" then pure (t, 0) else pure (t, (← n.toNat?))
  | _ => none

structure DepIn where
  wallet : Nat
  cfg : DepCfg
  minAgeErr : Bool
  events : Option (List DepEvent)

def parseDepIn (wallet max skipS skipU minAge events reqs confs : String) : Option DepIn := do
  let w ← wallet.toNat?
  let mx ← max.toInt?
  let (ma, maErr) ← if minAge = "E" then some (0, true) else (minAge.toNat?).map (·, false)
  let evs ← parseOrE events parseDepEvent
  let rq ← (splitList reqs).mapM parseDepReq
  let cf ← (splitList confs).mapM parseConf
  pure { wallet := w, minAgeErr := maErr, events := evs,
         cfg := { now := drvNow, minAge := ma, max := mx, skipSwept := skipS == "1", skipUnconfirmed := skipU == "1",
                  req := fun t i => (lookupFirst rq (t, i)).getD .notFound,
                  conf := fun t => (lookupFirst cf t).getD 0 } }

def showDepStatus : DepStatus → String
  | .ok => "ok"
  | .errRequest => "err:request"
  | .errNotFound => "err:notfound"

def showDeposit (d : Deposit) : String :=
  s!"{d.ev.tx}:{d.ev.idx}:{d.ev.block}:{d.ev.wallet}:{if d.isSwept then 1 else 0}:{d.confirmations}"

def showDepRef (d : Deposit) : String := s!"{d.ev.tx}:{d.ev.idx}:{d.ev.block}"

def runDep (i : DepIn) (fmt : Deposit → String) (dropOnErr : Bool) : String :=
  if i.minAgeErr then "err:minage -" else
  match i.events with
  | none => "err:events -"
  | some evs =>
    let r := findDeposits i.cfg i.wallet evs
    let items := if dropOnErr && r.1 != .ok then [] else r.2
    showDepStatus r.1 ++ " " ++ showList (items.map fmt)

/-! ## redemptions -/

def parseRedEvent (s : String) : Option RedEvent :=
  match (colon s).mapM String.toNat? with
  | some [b, w, sc] => some ⟨b, ⟨w, sc⟩⟩
  | _ => none

def parsePend (s : String) : Option (Key × Lookup Nat) :=
  match colon s with
  | [w, sc, a] => do
    let k : Key := ⟨(← w.toNat?), (← sc.toNat?)⟩
    if a = "E" then pure (k, .err) else pure (k, .found (drvNow - (← a.toNat?)))
  | _ => none

def parseDelay (s : String) : Option (Key × Option Nat) :=
  match colon s with
  | [w, sc, d] => do
    let k : Key := ⟨(← w.toNat?), (← sc.toNat?)⟩
    if d = "E" then pure (k, none) else pure (k, some (← d.toNat?))
  | _ => none

structure RedIn where
  wallet : Nat
  cfg : RedCfg
  /-- events the chain returns for the filter the code builds; `none` = failing call -/
  events : Option (List RedEvent)
  pendTbl : List (Key × Lookup Nat)

def parseRedIn (wallet cur limit timeout minAge avg events pend delays : String) : Option RedIn := do
  let w ← wallet.toNat?
  let cur ← cur.toNat?
  let limit ← limit.toNat?
  let timeout ← timeout.toNat?
  let minAge ← minAge.toNat?
  let avg ← avg.toNat?
  let evs ← parseOrE events parseRedEvent
  let pd ← (splitList pend).mapM parsePend
  let dl ← (splitList delays).mapM parseDelay
  pure { wallet := w, pendTbl := pd,
         events := evs.map (chainRedEvents w (filterStartBlock cur timeout avg)),
         cfg := { now := drvNow, timeout := timeout, minAge := minAge, limit := limit,
                  pending := fun k => (lookupFirst pd k).getD .notFound,
                  delay := fun k => (lookupFirst dl k).getD (some 0) } }

def showRedStatus : RedStatus → String
  | .ok => "ok"
  | .errPending => "err:pending"
  | .errDelay => "err:delay"

def showKey (k : Key) : String := s!"{k.wallet}:{k.script}"

/-- two pending requests of the event set with the same `RequestedAt`: their relative order
    depends on Go's map iteration order, the model declines to predict (monitor still applies) -/
def hasTie (cfg : RedCfg) (keys : List Key) : Bool :=
  let ts := keys.filterMap (fun k => match cfg.pending k with | .found t => some t | _ => none)
  ts.eraseDups.length != ts.length

def runRed (i : RedIn) (fmt : Pending → String) : String :=
  match i.events with
  | none => "err:events -"
  | some evs =>
    let keys := mapKeys evs
    let r := findPendingRedemptions i.cfg keys
    if r.1 == .ok && hasTie i.cfg keys then "SKIP" else
    showRedStatus r.1 ++ " " ++ showList (r.2.map fmt)

/-! ## generator -/

def parseTask (s : String) : Option Task :=
  match colon s with
  | [a, o] => do
    let a ← a.toNat?
    let o ← if o = "p" then some Outcome.proposal else if o = "e" then some .empty
             else if o = "x" then some .error else none
    pure ⟨a, o⟩
  | _ => none

def showGen : GenRes → String
  | .proposal i => s!"prop:{i}"
  | .error i => s!"err:{i}"
  | .noop => "noop"

def parseGenRes (s : String) : Option GenRes :=
  if s = "noop" then some .noop else
  match colon s with
  | ["prop", i] => i.toNat?.map .proposal
  | ["err", i] => i.toNat?.map .error
  | _ => none

/-! ## entry points -/

def model (line : String) : String :=
  match splitWs line with
  | ["dep", w, mx, ss, su, ma, ev, rq, cf] =>
    match parseDepIn w mx ss su ma ev rq cf with
    | some i => runDep i showDeposit false
    | none => "bad-op"
  | ["dsweep", w, mx, ma, ev, rq, cf] =>
    match parseDepIn w mx "1" "1" ma ev rq cf with
    | some i => if i.wallet = 0 then "err:wallet-required -" else runDep i showDepRef true
    | none => "bad-op"
  | ["red", w, cur, lim, to, ma, avg, ev, pd, dl] =>
    match parseRedIn w cur lim to ma avg ev pd dl with
    | some i => runRed i (fun p => showKey p.key)
    | none => "bad-op"
  | ["rtask", w, cur, lim, to, ma, avg, ev, pd, dl] =>
    match parseRedIn w cur lim to ma avg ev pd dl with
    | some i => if i.wallet = 0 then "err:wallet-required -" else runRed i (fun p => toString p.key.script)
    | none => "bad-op"
  | ["gen", ts, cl] =>
    match (splitList ts).mapM parseTask, parseNats cl with
    | some tasks, some checklist =>
      let r := generate tasks checklist
      showGen r.1 ++ " " ++ showList r.2
    | _, _ => "bad-op"
  | _ => "bad-op"

def verdict (b : Bool) (why : String) : String := if b then "ok" else "FAIL " ++ why

def parseDepositObs (s : String) : Option Deposit :=
  match (colon s).mapM String.toNat? with
  | some [t, i, b, w, sw, c] => some ⟨⟨b, w, t, i⟩, sw == 1, c⟩
  | _ => none

def monitorDep (i : DepIn) (obs : String) (full : Bool) : String :=
  match splitWs obs with
  | [st, items] =>
    if i.minAgeErr then verdict (st == "err:minage" && items == "-") "deposit-minage-error" else
    match i.events with
    | none => verdict (st == "err:events" && items == "-") "deposit-events-error"
    | some evs =>
      let spec := depSpec i.cfg i.wallet evs
      if full then
        match (splitList items).mapM parseDepositObs with
        | some ds =>
          let status := if st == "ok" then some DepStatus.ok else if st == "err:request" then some .errRequest
                        else if st == "err:notfound" then some .errNotFound else none
          match status with
          | some s => verdict (holdsDep i.cfg i.wallet evs (s, ds)) "deposits-not-first-eligible-in-reveal-order"
          | none => "FAIL deposit-unexpected-error"
        | none => "FAIL unparsable-observation"
      else
        -- FindDepositsToSweep: references only, nothing on error
        let want := if spec.1 == .ok then spec.2 else []
        verdict (st == showDepStatus spec.1 && items == showList (want.map showDepRef))
          "deposits-not-first-eligible-in-reveal-order"
  | _ => "FAIL unparsable-observation"

def parsePendingObs (cfg : RedCfg) (withWallet : Bool) (wallet : Nat) (s : String) : Option Pending :=
  let k : Option Key :=
    if withWallet then
      match (colon s).mapM String.toNat? with
      | some [w, sc] => some ⟨w, sc⟩
      | _ => none
    else s.toNat?.map (fun sc => ⟨wallet, sc⟩)
  k.map (fun k => ⟨k, match cfg.pending k with | .found t => t | _ => 0⟩)

def monitorRed (i : RedIn) (obs : String) (withWallet : Bool) : String :=
  match splitWs obs with
  | [st, items] =>
    match i.events with
    | none => verdict (st == "err:events" && items == "-") "redemption-events-error"
    | some evs =>
      let status := if st == "ok" then some RedStatus.ok else if st == "err:pending" then some .errPending
                    else if st == "err:delay" then some .errDelay else none
      match status, (splitList items).mapM (parsePendingObs i.cfg withWallet i.wallet) with
      | some s, some ps => verdict (holdsRed i.cfg (mapKeys evs) (s, ps)) "redemptions-not-eligible-oldest-first"
      | none, _ => "FAIL redemption-unexpected-error"
      | _, none => "FAIL unparsable-observation"
  | _ => "FAIL unparsable-observation"

def monitor (op obs : String) : String :=
  match splitWs op with
  | ["dep", w, mx, ss, su, ma, ev, rq, cf] =>
    match parseDepIn w mx ss su ma ev rq cf with
    | some i => monitorDep i obs true
    | none => "FAIL bad-op"
  | ["dsweep", w, mx, ma, ev, rq, cf] =>
    match parseDepIn w mx "1" "1" ma ev rq cf with
    | some i =>
      if i.wallet = 0 then verdict (obs == "err:wallet-required -") "wallet-required" else monitorDep i obs false
    | none => "FAIL bad-op"
  | ["red", w, cur, lim, to, ma, avg, ev, pd, dl] =>
    match parseRedIn w cur lim to ma avg ev pd dl with
    | some i => monitorRed i obs true
    | none => "FAIL bad-op"
  | ["rtask", w, cur, lim, to, ma, avg, ev, pd, dl] =>
    match parseRedIn w cur lim to ma avg ev pd dl with
    | some i =>
      if i.wallet = 0 then verdict (obs == "err:wallet-required -") "wallet-required" else monitorRed i obs false
    | none => "FAIL bad-op"
  | ["gen", ts, cl] =>
    match (splitList ts).mapM parseTask, parseNats cl, splitWs obs with
    | some tasks, some checklist, [r, runs] =>
      match parseGenRes r, parseNats runs with
      | some g, some rs => verdict (holdsGen tasks checklist (g, rs)) "generate-not-first-success"
      | _, _ => "FAIL unparsable-observation"
    | none, _, _ => "FAIL bad-op"
    | _, none, _ => "FAIL bad-op"
    | _, _, _ => "FAIL unparsable-observation"
  | _ => "FAIL bad-op"

def main (args : List String) : IO UInt32 := driverMain model monitor args
