import KeepVerif.DriverLib
import KeepVerif.Model.C33
open KeepVerif
open KeepVerif.C33

/-- the model's clock: ages on the op line are relative to it -/
def drvNow : Nat := 10000000000

def colon (s : String) : List String := s.splitOn ":"

def lookupFirst {κ α} [BEq κ] (tbl : List (κ × α)) (k : κ) : Option α :=
  (tbl.find? (fun p => p.1 == k)).map (·.2)

/-! ## deposits -/

def parseDepEvent (s : String) : Option DepEvent :=
  match (colon s).mapM String.toNat? with
  | some [b, w, t, i] => some ⟨b, w, t, i⟩
  | _ => none

/-- `E` = failing call -/
def parseOrE {α} (s : String) (p : String → Option α) : Option (Option (List α)) :=
  if s = "E" then some none else ((splitList s).mapM p).map some

def parseDepReq (s : String) : Option ((Nat × Nat) × Lookup DepReq) :=
  match colon s with
  | [t, i, a, sw] => do
    let t ← t.toNat?
    let i ← i.toNat?
    if a = "E" then pure ((t, i), .err) else
    let a ← a.toNat?
    let sw ← sw.toNat?
    pure ((t, i), .found ⟨drvNow - a, sw⟩)
  | _ => none

def parseConf (s : String) : Option (Nat × Nat) :=
  match colon s with
  | [t, n] => do
    let t ← t.toNat?
    if n = "E" then pure (t, 0) else pure (t, (← n.toNat?))
  | _ => none

structure DepIn where
  wallet : Nat
  cfg : DepCfg
  minAgeErr : Bool
  events : Option (List DepEvent)

def parseDepIn (wallet max skipS skipU minAge events reqs confs : String) : Option DepIn := do
  let w ← wallet.toNat?
  let mx ← max.toInt?
  let (ma, maErr) ← if minAge = "E" then some (0, true) else (minAge.toNat?).map (·, false)
  let evs ← parseOrE events parseDepEvent
  let rq ← (splitList reqs).mapM parseDepReq
  let cf ← (splitList confs).mapM parseConf
  pure { wallet := w, minAgeErr := maErr, events := evs,
         cfg := { now := drvNow, minAge := ma, max := mx, skipSwept := skipS == "1", skipUnconfirmed := skipU == "1",
                  req := fun t i => (lookupFirst rq (t, i)).getD .notFound,
                  conf := fun t => (lookupFirst cf t).getD 0 } }

def showDepStatus : DepStatus → String
  | .ok => "ok"
  | .errRequest => "err:request"
  | .errNotFound => "err:notfound"

def showDeposit (d : Deposit) : String :=
  s!"{d.ev.tx}:{d.ev.idx}:{d.ev.block}:{d.ev.wallet}:{if d.isSwept then 1 else 0}:{d.confirmations}"

def showDepRef (d : Deposit) : String := s!"{d.ev.tx}:{d.ev.idx}:{d.ev.block}"

def runDep (i : DepIn) (fmt : Deposit → String) (dropOnErr : Bool) : String :=
  if i.minAgeErr then "err:minage -" else
  match i.events with
  | none => "err:events -"
  | some evs =>
    let r := findDeposits i.cfg i.wallet evs
    let items := if dropOnErr && r.1 != .ok then [] else r.2
    showDepStatus r.1 ++ " " ++ showList (items.map fmt)

/-! ## redemptions -/

def parseRedEvent (s : String) : Option RedEvent :=
  match (colon s).mapM String.toNat? with
  | some [b, w, sc] => some ⟨b, ⟨w, sc⟩⟩
  | _ => none

def parsePend (s : String) : Option (Key × Lookup Nat) :=
  match colon s with
  | [w, sc, a] => do
    let k : Key := ⟨(← w.toNat?), (← sc.toNat?)⟩
    if a = "E" then pure (k, .err) else pure (k, .found (drvNow - (← a.toNat?)))
  | _ => none

def parseDelay (s : String) : Option (Key × Option Nat) :=
  match colon s with
  | [w, sc, d] => do
    let k : Key := ⟨(← w.toNat?), (← sc.toNat?)⟩
    if d = "E" then pure (k, none) else pure (k, some (← d.toNat?))
  | _ => none

structure RedIn where
  wallet : Nat
  cfg : RedCfg
  /-- events the chain returns for the filter the code builds; `none` = failing call -/
  events : Option (List RedEvent)
  pendTbl : List (Key × Lookup Nat)

def parseRedIn (wallet cur limit timeout minAge avg events pend delays : String) : Option RedIn := do
  let w ← wallet.toNat?
  let cur ← cur.toNat?
  let limit ← limit.toNat?
  let timeout ← timeout.toNat?
  let minAge ← minAge.toNat?
  let avg ← avg.toNat?
  let evs ← parseOrE events parseRedEvent
  let pd ← (splitList pend).mapM parsePend
  let dl ← (splitList delays).mapM parseDelay
  pure { wallet := w, pendTbl := pd,
         events := evs.map (chainRedEvents w (filterStartBlock cur timeout avg)),
         cfg := { now := drvNow, timeout := timeout, minAge := minAge, limit := limit,
                  pending := fun k => (lookupFirst pd k).getD .notFound,
                  delay := fun k => (lookupFirst dl k).getD (some 0) } }

def showRedStatus : RedStatus → String
  | .ok => "ok"
  | .errPending => "err:pending"
  | .errDelay => "err:delay"

def showKey (k : Key) : String := s!"{k.wallet}:{k.script}"

/-- Two pending, not yet timed-out requests of the event set with the same `RequestedAt`: their
    relative order after the stable sort is Go's map iteration order. With a limit that cuts inside
    the tie, or a failing delay lookup for one of them, the outcome (which request is proposed /
    whether the failing lookup is reached at all) legitimately depends on that order, so the model
    declines to predict (the monitor still applies). Timed-out requests are skipped without any
    lookup or output, so ties among them are harmless. `err:pending` is order independent. -/
def hasTie (cfg : RedCfg) (keys : List Key) : Bool :=
  let ts := keys.filterMap (fun k => match cfg.pending k with
    | .found t => if timedOut cfg ⟨k, t⟩ then none else some t
    | _ => none)
  ts.eraseDups.length != ts.length

def runRed (i : RedIn) (fmt : Pending → String) : String :=
  match i.events with
  | none => "err:events -"
  | some evs =>
    let keys := mapKeys evs
    let r := findPendingRedemptions i.cfg keys
    if r.1 != .errPending && hasTie i.cfg keys then "SKIP" else
    showRedStatus r.1 ++ " " ++ showList (r.2.map fmt)

/-! ## generator -/

def parseTask (s : String) : Option Task :=
  match colon s with
  | [a, o] => do
    let a ← a.toNat?
    let o ← if o = "p" then some Outcome.proposal else if o = "e" then some .empty
             else if o = "x" then some .error else none
    pure ⟨a, o⟩
  | _ => none

def showGen : GenRes → String
  | .proposal i => s!"prop:{i}"
  | .error i => s!"err:{i}"
  | .noop => "noop"

def parseGenRes (s : String) : Option GenRes :=
  if s = "noop" then some .noop else
  match colon s with
  | ["prop", i] => i.toNat?.map .proposal
  | ["err", i] => i.toNat?.map .error
  | _ => none

/-! ## entry points -/

def verdict (b : Bool) (why : String) : String := if b then "ok" else "FAIL " ++ why

def parseDepositObs (s : String) : Option Deposit :=
  match (colon s).mapM String.toNat? with
  | some [t, i, b, w, sw, c] => some ⟨⟨b, w, t, i⟩, sw == 1, c⟩
  | _ => none

def monitorDep (i : DepIn) (obs : String) (full : Bool) : String :=
  match splitWs obs with
  | [st, items] =>
    if i.minAgeErr then verdict (st == "err:minage" && items == "-") "deposit-minage-error" else
    match i.events with
    | none => verdict (st == "err:events" && items == "-") "deposit-events-error"
    | some evs =>
      let spec := depSpec i.cfg i.wallet evs
      if full then
        match (splitList items).mapM parseDepositObs with
        | some ds =>
          let status := if st == "ok" then some DepStatus.ok else if st == "err:request" then some .errRequest
                        else if st == "err:notfound" then some .errNotFound else none
          match status with
          | some s => verdict (holdsDep i.cfg i.wallet evs (s, ds)) "deposits-not-first-eligible-in-reveal-order"
          | none => "FAIL deposit-unexpected-error"
        | none => "FAIL unparsable-observation"
      else
        -- FindDepositsToSweep: references only, nothing on error
        let want := if spec.1 == .ok then spec.2 else []
        verdict (st == showDepStatus spec.1 && items == showList (want.map showDepRef))
          "deposits-not-first-eligible-in-reveal-order"
  | _ => "FAIL unparsable-observation"

def parsePendingObs (cfg : RedCfg) (withWallet : Bool) (wallet : Nat) (s : String) : Option Pending :=
  let k : Option Key :=
    if withWallet then
      match (colon s).mapM String.toNat? with
      | some [w, sc] => some ⟨w, sc⟩
      | _ => none
    else s.toNat?.map (fun sc => ⟨wallet, sc⟩)
  k.map (fun k => ⟨k, match cfg.pending k with | .found t => t | _ => 0⟩)

def monitorRed (i : RedIn) (obs : String) (withWallet : Bool) : String :=
  match splitWs obs with
  | [st, items] =>
    match i.events with
    | none => verdict (st == "err:events" && items == "-") "redemption-events-error"
    | some evs =>
      let status := if st == "ok" then some RedStatus.ok else if st == "err:pending" then some .errPending
                    else if st == "err:delay" then some .errDelay else none
      match status, (splitList items).mapM (parsePendingObs i.cfg withWallet i.wallet) with
      | some s, some ps => verdict (holdsRed i.cfg (mapKeys evs) (s, ps)) "redemptions-not-eligible-oldest-first"
      | none, _ => "FAIL redemption-unexpected-error"
      | _, none => "FAIL unparsable-observation"
  | _ => "FAIL unparsable-observation"

/-! ## Generate over the real tasks (`full`) -/

structure FullIn where
  checklist : List Nat
  dep : DepIn
  red : RedIn

def parseFullIn (cl dmax dma dev drq dcf cur lim to ma avg ev pd dl : String) : Option FullIn := do
  let c ← parseNats cl
  let d ← parseDepIn "1" dmax "1" "1" dma dev drq dcf
  let r ← parseRedIn "1" cur lim to ma avg ev pd dl
  if d.minAgeErr || d.events.isNone || r.events.isNone then none else pure ⟨c, d, r⟩

def fullDepRes (i : FullIn) : DepStatus × List Deposit := findDeposits i.dep.cfg 1 (i.dep.events.getD [])
def fullRedKeys (i : FullIn) : List Key := mapKeys (i.red.events.getD [])
def fullRedRes (i : FullIn) : RedStatus × List Pending := findPendingRedemptions i.red.cfg (fullRedKeys i)

def showFull (i : FullIn) (d : DepStatus × List Deposit) (r : RedStatus × List Pending) (g : GenRes) : String :=
  match g with
  | .noop => "noop -"
  | .proposal 0 => "sweep " ++ showList (d.2.map showDepRef)
  | .proposal _ => "redeem " ++ showList (r.2.map (fun p => toString p.key.script))
  | .error 0 => "err:0 " ++ ((showDepStatus d.1).drop 4).toString
  | .error _ => "err:1 " ++ ((showRedStatus r.1).drop 4).toString

def runFull (i : FullIn) : String :=
  let d := fullDepRes i
  let r := fullRedRes i
  let g := generate (fullTasks d r) i.checklist
  -- the redemption task ran and its outcome depends on the map order: decline
  if g.2.contains 1 && r.1 != .errPending && hasTie i.red.cfg (fullRedKeys i) then "SKIP"
  else showFull i d r g.1

/-- monitor: the deposit outcome is the closed form `depSpec`; the redemption outcome is the
    model's, or — with tied request times, where it depends on the map order — any outcome; the
    result must be what `genSpec` gives for these outcomes, and the proposal's content must satisfy
    the discovery monitors. -/
def monitorFull (i : FullIn) (obs : String) : String :=
  match splitWs obs with
  | [kind, items] =>
    let d := depSpec i.dep.cfg 1 (i.dep.events.getD [])
    let keys := fullRedKeys i
    let rModel := fullRedRes i
    let tie := rModel.1 != .errPending && hasTie i.red.cfg keys
    let redOutcomes : List Outcome := if tie then [.proposal, .empty, .error] else [redOutcome rModel]
    let allowed : List GenRes :=
      redOutcomes.map (fun o => (genSpec [⟨2, sweepOutcome d⟩, ⟨3, o⟩] i.checklist).1)
    if kind == "noop" then verdict (allowed.contains .noop && items == "-") "generate-not-first-success"
    else if kind == "sweep" then
      verdict (allowed.contains (.proposal 0) && items == showList (d.2.map showDepRef))
        "generate-not-first-success-or-wrong-deposits"
    else if kind == "redeem" then
      match (splitList items).mapM (parsePendingObs i.red.cfg false 1) with
      | some ps =>
        verdict (allowed.contains (.proposal 1) && !ps.isEmpty && holdsRed i.red.cfg keys (.ok, ps))
          "generate-not-first-success-or-wrong-redemptions"
      | none => "FAIL unparsable-observation"
    else if kind == "err:0" then
      verdict (allowed.contains (.error 0) && items == ((showDepStatus d.1).drop 4).toString) "generate-error-rule"
    else if kind == "err:1" then
      verdict (allowed.contains (.error 1) &&
        ((items == "pending" && holdsRed i.red.cfg keys (.errPending, [])) ||
         (items == "delay" && holdsRed i.red.cfg keys (.errDelay, [])))) "generate-error-rule"
    else "FAIL unparsable-observation"
  | _ => "FAIL unparsable-observation"

def fullModel (cl dmax dma dev drq dcf cur lim to ma avg ev pd dl : String) : String :=
  match parseFullIn cl dmax dma dev drq dcf cur lim to ma avg ev pd dl with
  | some i => runFull i
  | none => "bad-op"

def model (line : String) : String :=
  match splitWs line with
  | ["dep", w, mx, ss, su, ma, ev, rq, cf] =>
    match parseDepIn w mx ss su ma ev rq cf with
    | some i => runDep i showDeposit false
    | none => "bad-op"
  | ["dsweep", w, mx, ma, ev, rq, cf] =>
    match parseDepIn w mx "1" "1" ma ev rq cf with
    | some i => if i.wallet = 0 then "err:wallet-required -" else runDep i showDepRef true
    | none => "bad-op"
  | ["red", w, cur, lim, to, ma, avg, ev, pd, dl] =>
    match parseRedIn w cur lim to ma avg ev pd dl with
    | some i => runRed i (fun p => showKey p.key)
    | none => "bad-op"
  | ["rtask", w, cur, lim, to, ma, avg, ev, pd, dl] =>
    match parseRedIn w cur lim to ma avg ev pd dl with
    | some i => if i.wallet = 0 then "err:wallet-required -" else runRed i (fun p => toString p.key.script)
    | none => "bad-op"
  | ["gen", ts, cl] =>
    match (splitList ts).mapM parseTask, parseNats cl with
    | some tasks, some checklist =>
      let r := generate tasks checklist
      showGen r.1 ++ " " ++ showList r.2
    | _, _ => "bad-op"
  | ["full", cl, dmax, dma, dev, drq, dcf, cur, lim, to, ma, avg, ev, pd, dl] =>
    fullModel cl dmax dma dev drq dcf cur lim to ma avg ev pd dl
  | _ => "bad-op"

def monitor (op obs : String) : String :=
  match splitWs op with
  | ["dep", w, mx, ss, su, ma, ev, rq, cf] =>
    match parseDepIn w mx ss su ma ev rq cf with
    | some i => monitorDep i obs true
    | none => "FAIL bad-op"
  | ["dsweep", w, mx, ma, ev, rq, cf] =>
    match parseDepIn w mx "1" "1" ma ev rq cf with
    | some i =>
      if i.wallet = 0 then verdict (obs == "err:wallet-required -") "wallet-required" else monitorDep i obs false
    | none => "FAIL bad-op"
  | ["red", w, cur, lim, to, ma, avg, ev, pd, dl] =>
    match parseRedIn w cur lim to ma avg ev pd dl with
    | some i => monitorRed i obs true
    | none => "FAIL bad-op"
  | ["rtask", w, cur, lim, to, ma, avg, ev, pd, dl] =>
    match parseRedIn w cur lim to ma avg ev pd dl with
    | some i =>
      if i.wallet = 0 then verdict (obs == "err:wallet-required -") "wallet-required" else monitorRed i obs false
    | none => "FAIL bad-op"
  | ["gen", ts, cl] =>
    match (splitList ts).mapM parseTask, parseNats cl, splitWs obs with
    | some tasks, some checklist, [r, runs] =>
      match parseGenRes r, parseNats runs with
      | some g, some rs => verdict (holdsGen tasks checklist (g, rs)) "generate-not-first-success"
      | _, _ => "FAIL unparsable-observation"
    | none, _, _ => "FAIL bad-op"
    | _, none, _ => "FAIL bad-op"
    | _, _, _ => "FAIL unparsable-observation"
  | ["full", cl, dmax, dma, dev, drq, dcf, cur, lim, to, ma, avg, ev, pd, dl] =>
    match parseFullIn cl dmax dma dev drq dcf cur lim to ma avg ev pd dl with
    | some i => monitorFull i obs
    | none => "FAIL bad-op"
  | _ => "FAIL bad-op"

def main (args : List String) : IO UInt32 := driverMain model monitor args
