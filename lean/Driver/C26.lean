import KeepVerif.DriverLib
import KeepVerif.Model.C26
open KeepVerif
open KeepVerif.C26

def parseKind : String → Option Kind
  | "w" => some .wpkh
  | "p" => some .pkh
  | "s" => some .sh
  | "S" => some .wsh
  | "x" => some .unknown
  | _ => none

def parseUtxoFields (f : List String) : Option Utxo :=
  match f with
  | [id, idx, v, k] => do
    pure { id := ← id.toNat?, idx := ← idx.toNat?, value := ← v.toInt?, kind := ← parseKind k }
  | _ => none

/-- `-` = no UTXO (nil pointer). -/
def parseOptUtxo (s : String) : Option (Option Utxo) :=
  if s = "-" then some none else (parseUtxoFields (s.splitOn ":")).map some

def parseDep (s : String) : Option Dep :=
  match s.splitOn ":" with
  | [id, idx, v, k, fl] => do
    let u ← parseUtxoFields [id, idx, v, k]
    if fl = "n" || fl = "e" then pure ⟨u, true⟩ else if fl = "b" then pure ⟨u, false⟩ else none
  | _ => none

def parseReq (s : String) : Option Req :=
  match s.splitOn ":" with
  | [sc, a, t] => do pure { script := sc, amount := ← a.toInt?, treasury := ← t.toInt? }
  | _ => none

def showTx (tx : Tx) : String :=
  "in=" ++ showList (tx.ins.map fun (a, b) => s!"{a}:{b}") ++
  " out=" ++ showList (tx.outs.map fun (s, v) => s!"{s}:{v}")

def showRes : Except Err Tx → String
  | .ok tx => showTx tx
  | .error e => e.toString

def parseShape : String → Option Bool
  | "d" => some false
  | "0" => some false
  | "1" => some true
  | _ => none

inductive Op
  | sweep (w : String) (main : Option Utxo) (deps : List Dep) (fee : Int)
  | redeem (w : String) (main : Option Utxo) (reqs : List Req) (fee : Int) (cl : Bool)
  | move (main : Option Utxo) (targets : List String) (fee : Int)
  | msweep (w : String) (moved main : Option Utxo) (fee : Int)
  | shares (fee : Int) (n : Nat)
  | sharesN (fee : Int) (ns : List Nat)
  | redeemN (w : String) (main : Option Utxo) (reqs : List Req) (fee : Int) (cl : Bool) (times : Nat)

def parseOp (line : String) : Option Op :=
  match splitWs line with
  | ["sweep", _, w, main, deps, fee] => do
    pure (.sweep w (← parseOptUtxo main) (← (splitList deps).mapM parseDep) (← fee.toInt?))
  | ["redeem", _, w, main, reqs, fee, shape] => do
    pure (.redeem w (← parseOptUtxo main) (← (splitList reqs).mapM parseReq) (← fee.toInt?) (← parseShape shape))
  | ["move", main, targets, fee] => do
    pure (.move (← parseOptUtxo main) (splitList targets) (← fee.toInt?))
  | ["msweep", _, w, moved, main, fee] => do
    pure (.msweep w (← parseOptUtxo moved) (← parseOptUtxo main) (← fee.toInt?))
  | ["sharesN", fee, ns] => do
    let ns ← parseNats ns
    if ns.isEmpty || ns.any (· = 0) then none else pure (.sharesN (← fee.toInt?) ns)
  | ["redeemN", _, w, main, reqs, fee, shape, pre, times] => do
    let _ ← parseNats pre
    let t ← times.toNat?
    if t = 0 then none else
    pure (.redeemN w (← parseOptUtxo main) (← (splitList reqs).mapM parseReq) (← fee.toInt?) (← parseShape shape) t)
  | ["shares", fee, n] => do
    let n ← n.toNat?
    if n = 0 then none else pure (.shares (← fee.toInt?) n)
  | _ => none

def model (line : String) : String :=
  match parseOp line with
  | some (.sweep w main deps fee) => showRes (sweep w main deps fee)
  | some (.redeem w main reqs fee cl) => showRes (redeem w main reqs fee cl)
  | some (.move main targets fee) => showRes (move main targets fee)
  | some (.msweep w moved main fee) => showRes (msweep w moved main fee)
  | some (.shares fee n) => "shares=" ++ showList (feeShares fee n)
  -- the distribution is a pure function of (fee, n): every evaluation of one function value
  -- gives what a fresh one gives
  | some (.sharesN fee ns) => "shares=" ++ "|".intercalate (ns.map fun n => showList (feeShares fee n))
  | some (.redeemN w main reqs fee cl t) =>
    " | ".intercalate (List.replicate t (showRes (redeem w main reqs fee cl)))
  | none => "bad-op"

def parsePair (s : String) : Option (Nat × Nat) :=
  match s.splitOn ":" with
  | [a, b] => do pure (← a.toNat?, ← b.toNat?)
  | _ => none

def parseOut (s : String) : Option (String × Int) :=
  match s.splitOn ":" with
  | [a, b] => do pure (a, ← b.toInt?)
  | _ => none

def parseTx (obs : String) : Option Tx :=
  match splitWs obs with
  | [i, o] =>
    if i.startsWith "in=" && o.startsWith "out=" then do
      let ins ← (splitList (i.drop 3).toString).mapM parsePair
      let outs ← (splitList (o.drop 4).toString).mapM parseOut
      pure ⟨ins, outs⟩
    else none
  | _ => none

def verdict (b : Bool) (why : String) : String := if b then "ok" else "FAIL " ++ why

def monitor (op obs : String) : String :=
  match parseOp op with
  | none => "FAIL bad-op"
  | some (.shares fee n) =>
    if obs.startsWith "shares=" then
      match parseInts (obs.drop 7).toString with
      | some ss => verdict (holdsShares fee n ss) "fee-shares"
      | none => "FAIL unparsable-observation"
    else "FAIL unparsable-observation"
  | some (.sharesN fee ns) =>
    if obs.startsWith "shares=" then
      let parts := (obs.drop 7).toString.splitOn "|"
      if parts.length ≠ ns.length then "FAIL unparsable-observation" else
      match parts.mapM parseInts with
      | some sss =>
        verdict ((List.zip ns sss).all fun (n, ss) => holdsShares fee n ss) "fee-shares-on-reused-distribution"
      | none => "FAIL unparsable-observation"
    else "FAIL unparsable-observation"
  | some (.redeemN w main reqs fee cl t) =>
    let parts := obs.splitOn " | "
    if parts.length ≠ t then "FAIL unparsable-observation" else
    match parts.mapM (fun p => if p.startsWith "err:" then some none else (parseTx p).map some) with
    | none => "FAIL unparsable-observation"
    | some txs =>
      verdict (txs.all fun
        | none => true
        | some tx => holdsRedeem w main reqs fee cl tx) "redemption-conservation-on-reused-distribution"
  | some o =>
    if obs.startsWith "err:" then "ok" else
    match parseTx obs with
    | none => "FAIL unparsable-observation"
    | some tx =>
      match o with
      | .sweep w main deps fee => verdict (holdsSweep w main deps fee tx) "sweep-conservation"
      | .redeem w main reqs fee cl => verdict (holdsRedeem w main reqs fee cl tx) "redemption-conservation"
      | .move main targets fee => verdict (holdsMove main targets fee tx) "moving-funds-conservation"
      | .msweep w moved main fee => verdict (holdsMsweep w moved main fee tx) "moved-funds-sweep-conservation"
      | _ => "FAIL bad-op"

def main (args : List String) : IO UInt32 := driverMain model monitor args
