import KeepVerif.DriverLib
import KeepVerif.Model.C23
import KeepVerif.Props.C23
open KeepVerif

def sortNats (xs : List Nat) : List Nat := (xs.toArray.qsort (· < ·)).toList

def model (line : String) : String :=
  match splitWs line with
  | ["watch", bs] =>
    match parseNats bs with
    | some blocks => showList (sortNats (C23.watch blocks))
    | none => "bad-op"
  | _ => "bad-op"

def monitor (op obs : String) : String :=
  match splitWs op, parseNats obs with
  | ["watch", bs], some o =>
    match parseNats bs with
    | some blocks => if C23.holds blocks o then "ok" else "FAIL window-trigger-rule"
    | none => "FAIL bad-op"
  | _, _ => "FAIL unparsable-observation"

def main (args : List String) : IO UInt32 := driverMain model monitor args
