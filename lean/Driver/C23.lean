import KeepVerif.DriverLib
import KeepVerif.Model.C23
import KeepVerif.Props.C23
open KeepVerif

def sortNats (xs : List Nat) : List Nat := (xs.toArray.qsort (· < ·)).toList

/-- `seg1|seg2|…`: the block source closes the channel between segments. The unchanged watcher
    subscribes once, so only the first segment is observed (a closed channel yields zero blocks,
    which `index` ignores). -/
def parseSegs (s : String) : Option (List (List Nat)) :=
  (s.splitOn "|").mapM parseNats

def model (line : String) : String :=
  match splitWs line with
  | ["watch", bs] =>
    match parseSegs bs with
    | some (first :: _) => showList (sortNats (C23.watch first))
    | _ => "bad-op"
  | _ => "bad-op"

def monitor (op obs : String) : String :=
  match splitWs op, parseNats obs with
  | ["watch", bs], some o =>
    match parseSegs bs with
    | some (first :: rest) =>
      -- the property over everything the watcher was fed, whatever it does on a closed channel;
      -- completeness is only required for the first subscription
      if C23.holdsSegs first rest.flatten o then "ok" else "FAIL window-trigger-rule"
    | _ => "FAIL bad-op"
  | _, _ => "FAIL unparsable-observation"

def main (args : List String) : IO UInt32 := driverMain model monitor args
