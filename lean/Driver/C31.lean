import KeepVerif.DriverLib
import KeepVerif.Model.C31
import KeepVerif.Model.C31Sha
open KeepVerif
open KeepVerif.C29 (Bytes hexEnc hexDec)
open KeepVerif.C31

def S256 : Bytes → Bytes := C31Sha.sha256
def H256 : Bytes → Bytes := fun b => C31Sha.sha256 (C31Sha.sha256 b)

def hexOf (b : Bytes) : String := if b.isEmpty then "_" else String.ofList (hexEnc b)
def bytesOf (s : String) : Option Bytes := if s = "_" then some [] else hexDec s.toList

structure Case where
  seed : Nat
  req : Nat
  txH : Nat
  txPos : Nat
  tip0 : Nat
  growth : List Nat
  counts : List Nat

def parseCase (line : String) : Option Case :=
  match splitWs line with
  | ["spv", a, b, c, d, e, g, cs] => do
    let seed ← a.toNat?
    let req ← b.toNat?
    let txH ← c.toNat?
    let txPos ← d.toNat?
    let tip0 ← e.toNat?
    let growth ← parseNats g
    let counts ← parseNats cs
    if counts.isEmpty || txH ≥ counts.length || txPos ≥ counts.getD txH 0 || counts.any (· < 1) then none
    else pure { seed, req, txH, txPos, tip0, growth, counts }
  | _ => none

def errName : Err → String
  | .notFound => "err:notfound" | .confirmations => "err:confirmations" | .header => "err:header"
  | .merkle => "err:merkle" | .coinbase => "err:coinbase"

def model (line : String) : String :=
  match parseCase line with
  | none => "bad-op"
  | some c =>
    let chain := mkChain H256 c.seed c.txH c.txPos c.counts
    let txid := targetId H256 c.seed c.txH c.txPos
    let tips := tipsOf c.tip0 (c.counts.length - 1) c.growth
    match assemble H256 S256 chain tips txid c.req with
    | .error e => errName e
    | .ok p =>
      let v := if verify H256 S256 txid c.req p then 1 else 0
      s!"ok {hexOf p.merkle} {p.index} {hexOf p.headers} {hexOf p.preimage} {hexOf p.coinbaseProof} {hexOf txid} V={v}"

def monitor (op obs : String) : String :=
  -- two-call discipline of the harness: a proof held across later assemblies must not change
  if (obs.splitOn " ALIASED").length > 1 then "FAIL proof-overwritten-by-later-assembly" else
  match parseCase op with
  | none => "FAIL bad-op"
  | some c =>
    match splitWs obs with
    | ["ok", m, i, hs, pre, cb, id, v] =>
      match bytesOf m, i.toNat?, bytesOf hs, bytesOf pre, bytesOf cb, bytesOf id with
      | some m, some i, some hs, some pre, some cb, some id =>
        if c.req = 0 then "ok" else   -- zero required confirmations: outside the property
        let txid := targetId H256 c.seed c.txH c.txPos
        let p : Proof := { merkle := m, index := i, headers := hs, preimage := pre, coinbaseProof := cb }
        if id ≠ txid then "FAIL wrong-transaction-returned"
        else if !verify H256 S256 txid c.req p then "FAIL proof-rejected-by-verifier"
        else if v ≠ "V=1" then "FAIL proof-rejected-by-go-verifier"
        else "ok"
      | _, _, _, _, _, _ => "FAIL unparsable-observation"
    | [e] => if e.startsWith "err:" then "ok" else "FAIL unparsable-observation"
    | _ => "FAIL unparsable-observation"

def main (args : List String) : IO UInt32 := driverMain model monitor args
