import KeepVerif.DriverLib
import KeepVerif.Model.C19
open KeepVerif
open KeepVerif.C19

def hexBytes (s : String) : Option Bytes := (parseHex s).map (·.map UInt8.toNat)
def showBytes (b : Bytes) : String := showHex (b.map UInt8.ofNat)

/-- `<kind char><hex>=<hex>|!` entries separated by commas -/
def parseOracle (s : String) : Option Oracle :=
  (s.splitOn ",").mapM fun e =>
    match e.splitOn "=" with
    | [k, v] =>
      match k.toList with
      | c :: h => do
        let b ← hexBytes (if h.isEmpty then "-" else String.ofList h)
        let r ← if v = "!" then some none else (hexBytes (if v.isEmpty then "-" else v)).map some
        pure (c.toNat, b, r)
      | [] => none
    | _ => none

structure Op where
  ty : Nat
  input : Bytes
  orc : Oracle
  wf : Bool

def parseOp (line : String) : Option Op :=
  match splitWs line with
  | name :: h :: rest => do
    let ty ← typeId name
    let input ← hexBytes h
    let wf := rest.contains "wf"
    let os := rest.filter (·.startsWith "o:")
    if rest.any (fun t => t != "wf" && !t.startsWith "o:") || os.length > 1 || rest.length > 2 then none
    let orc ← match os with
      | [o] => parseOracle (o.drop 2).toString
      | _ => some []
    pure ⟨ty, input, orc, wf⟩
  | _ => none

structure PairOp where
  ty : Nat
  a : Bytes
  b : Bytes
  orc : Oracle

def parsePair (line : String) : Option PairOp :=
  match splitWs line with
  | "pair" :: name :: ha :: hb :: rest => do
    let ty ← typeId name
    let a ← hexBytes ha
    let b ← hexBytes hb
    let orc ← match rest with
      | [] => some []
      | [o] => if o.startsWith "o:" then parseOracle (o.drop 2).toString else none
      | _ => none
    pure ⟨ty, a, b, orc⟩
  | _ => none

def showRes : Option (Option Bytes) → String
  | some (some out) => "ok:" ++ showBytes out
  | some none => "err"
  | none => "?"

def modelPair (p : PairOp) : String :=
  let ra := unmarshal p.orc p.ty p.a
  let rb := unmarshal p.orc p.ty p.b
  if ra.isNone || rb.isNone then "SKIP"
  else "A=" ++ showRes ra ++ " B=" ++ showRes rb ++ " A2=" ++ showRes ra

/-- `ok:<hex>` | `err` -/
def parseRes (s : String) : Option (Option Bytes) :=
  if s = "err" then some none
  else if s.startsWith "ok:" then (hexBytes (s.drop 3).toString).map some
  else none

def monitorPair (p : PairOp) (obs : String) : String :=
  match splitWs obs with
  | [ta, tb, ta2] =>
    if !(ta.startsWith "A=" && tb.startsWith "B=" && ta2.startsWith "A2=") then "FAIL decoder-not-total " ++ ta else
    match parseRes (ta.drop 2).toString, parseRes (tb.drop 2).toString, parseRes (ta2.drop 3).toString with
    | some a, some b, some a2 =>
      if !propHoldsPair a b a2 then "FAIL decoded-value-changed-by-a-later-decode"
      else if !specHoldsPair p.orc p.ty p.a p.b a b then "FAIL accepted-value-is-not-the-canonical-form-of-the-input"
      else "ok"
    | _, _, _ => "FAIL decoder-not-total " ++ ta
  | t :: _ => "FAIL decoder-not-total " ++ t
  | [] => "FAIL decoder-not-total"

def model (line : String) : String :=
  if line.startsWith "pair " then
    (match parsePair line with
     | some p => modelPair p
     | none => "bad-op") else
  match parseOp line with
  | some op =>
    match unmarshal op.orc op.ty op.input with
    | some (some out) => "ok " ++ showBytes out ++ " idem"
    | some none => "err"
    | none => "SKIP"
  | none => "bad-op"

def parseObs (obs : String) : Obs :=
  match splitWs obs with
  | ["err"] => .err
  | ["ok", h, flag] => match hexBytes h with
    | some b => if flag = "idem" then .ok b true else if flag = "UNSTABLE" then .ok b false else .other obs
    | none => .other obs
  | _ => .other obs

def monitor (opLine obs : String) : String :=
  if opLine.startsWith "pair " then
    (match parsePair opLine with
     | some p => monitorPair p obs
     | none => "FAIL bad-op") else
  match parseOp opLine with
  | some op =>
    let o := parseObs obs
    if !propHolds op.wf op.input o then
      (match o with
       | .other s => "FAIL decoder-not-total " ++ ((s.splitOn " ").headD "")
       | .err => "FAIL marshalled-well-formed-value-rejected"
       | .ok _ idem => if idem then "FAIL round-trip-gives-different-bytes" else "FAIL accepted-value-not-idempotent")
    else if !specHolds op.orc op.ty op.input o then
      (match o with
       | .err => "FAIL canonical-encoding-rejected"
       | _ => "FAIL accepted-value-is-not-the-canonical-form-of-the-input")
    else "ok"
  | none => "FAIL bad-op"

def main (args : List String) : IO UInt32 := driverMain model monitor args
