import KeepVerif.DriverLib
import KeepVerif.Model.C19
open KeepVerif
open KeepVerif.C19

def hexBytes (s : String) : Option Bytes := (parseHex s).map (·.map UInt8.toNat)
def showBytes (b : Bytes) : String := showHex (b.map UInt8.ofNat)

def known (ty : String) : Bool := (unmarshal ty []).isSome || sweepOnly.contains ty

def model (line : String) : String :=
  match splitWs line with
  | [ty, h] =>
    match hexBytes h with
    | some bs =>
      match unmarshal ty bs with
      | some (some out) => "ok " ++ showBytes out
      | some none => "err"
      | none => if sweepOnly.contains ty then "SKIP" else "bad-op"
    | none => "bad-op"
  | _ => "bad-op"

def parseObs (obs : String) : Obs :=
  match splitWs obs with
  | ["err"] => .err
  | ["ok", h] => match hexBytes h with
    | some b => .ok b
    | none => .other obs
  | _ => .other obs

def monitor (op obs : String) : String :=
  match splitWs op with
  | [ty, h] =>
    match hexBytes h with
    | some bs =>
      if !known ty then "FAIL bad-op" else
      match parseObs obs with
      | .other s => "FAIL decoder-not-total-or-unstable " ++ ((s.splitOn " ").headD "")
      | o => if holds ty bs o then "ok" else
          (match o with
           | .err => "FAIL canonical-encoding-rejected"
           | _ => "FAIL accepted-value-is-not-the-canonical-form-of-the-input")
    | none => "FAIL bad-op"
  | _ => "FAIL bad-op"

def main (args : List String) : IO UInt32 := driverMain model monitor args
