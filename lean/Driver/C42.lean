import KeepVerif.DriverLib
import KeepVerif.Model.C42
open KeepVerif
open KeepVerif.C42

def parseAns : Char → Option Ans
  | 't' => some .t
  | 'f' => some .f
  | 'e' => some .e
  | _ => none

def parseTick (s : String) : Option Tick :=
  match s.toList.mapM parseAns with
  | some [a0, a1, a2, a3, a4, a5, a6, a7, a8, a9] => some ⟨a0, a1, a2, a3, a4, a5, a6, a7, a8, a9⟩
  | _ => none

-- prefix-notation policy parser (fuel bounds the nesting of calls).
mutual
def parsePol : Nat → List String → Option (Policy × List String)
  | 0, _ => none
  | fuel + 1, toks =>
    match toks with
    | [] => none
    | "U" :: rest => some (.uncond, rest)
    | "B" :: rest => some (.beta, rest)
    | "K0" :: rest => some (.const false, rest)
    | "K1" :: rest => some (.const true, rest)
    | t :: rest =>
      if t.startsWith "C" then
        match (t.drop 1).toString.toNat? with
        | some n =>
          if n > 64 || toString n ≠ (t.drop 1).toString then none else parseMany fuel n rest
        | none => none
      else none
def parseMany : Nat → Nat → List String → Option (Policy × List String)
  | 0, _, _ => none
  | _ + 1, 0, rest => some (.nil, rest)
  | fuel + 1, k + 1, rest =>
    match parsePol fuel rest with
    | some (p, r) =>
      match parseMany fuel k r with
      | some (ps, r') => some (.cons p ps, r')
      | none => none
    | none => none
end

def parsePolicy (s : String) : Option Policy :=
  let toks := s.splitOn "."
  match parsePol (2 * toks.length + 70) toks with
  | some (p, []) => some p
  | _ => none

def callChar : Call → Char
  | .inPool => 'p' | .upToDate => 'd' | .eligible => 'e' | .canRestore => 'r'
  | .locked => 'l' | .chaosnet => 'c' | .beta => 'b' | .const => 'k'
  | .restore => 'R' | .update => 'U' | .join => 'J'

def parseCall : Char → Option Call
  | 'p' => some .inPool | 'd' => some .upToDate | 'e' => some .eligible | 'r' => some .canRestore
  | 'l' => some .locked | 'c' => some .chaosnet | 'b' => some .beta | 'k' => some .const
  | 'R' => some .restore | 'U' => some .update | 'J' => some .join
  | _ => none

def showTrace (tr : List Call) : String :=
  if tr.isEmpty then "-" else String.ofList (tr.map callChar)

def parseTrace (s : String) : Option (List Call) :=
  if s = "-" then some [] else s.toList.mapM parseCall

def showErr (b : Bool) : String := if b then "err" else "ok"

def showRes : MonResult → String
  | .ok => "ok" | .errResolve => "err:resolve" | .errUnknown => "err:unknown"

def parseRes : String → Option MonResult
  | "ok" => some .ok | "err:resolve" => some .errResolve | "err:unknown" => some .errUnknown
  | _ => none

def model (line : String) : String :=
  match splitWs line with
  | ["chk", p, tk] =>
    match parsePolicy p, parseTick tk with
    | some p, some tk => let r := check p tk; showTrace r.1 ++ " " ++ showErr r.2
    | _, _ => "bad-op"
  | ["rew", tk] =>
    match parseTick tk with
    | some tk => let r := checkRewards tk; showTrace r.1 ++ " " ++ showErr r.2
    | none => "bad-op"
  | ["mon", reg, p, tks] =>
    match reg.toList, parsePolicy p, (splitList tks).mapM parseTick with
    | [c], some p, some tks =>
      match parseAns c with
      | some reg =>
        let r := monitorPool reg p tks
        showRes r.1 ++ " " ++ showList (r.2.map showTrace)
      | none => "bad-op"
    | _, _, _ => "bad-op"
  | _ => "bad-op"

def verdict (b : Bool) : String := if b then "ok" else "FAIL status-change-requested-when-not-permitted"

def monitor (op obs : String) : String :=
  match splitWs op with
  | ["chk", p, tk] =>
    match parsePolicy p, parseTick tk, splitWs obs with
    | some p, some tk, [tr, _] =>
      match parseTrace tr with
      | some tr => verdict (holdsTick p tk tr)
      | none => "FAIL unparsable-observation"
    | none, _, _ | _, none, _ => if obs = "bad-op" then "ok" else "FAIL bad-op-accepted"
    | _, _, _ => "FAIL unparsable-observation"
  | ["rew", tk] =>
    match parseTick tk, splitWs obs with
    | some tk, [tr, _] =>
      match parseTrace tr with
      | some tr =>
        -- restore only when the chain said it can be restored (and it was asked)
        verdict ((!tr.contains .restore || (decide (tk.eligible = .f) && decide (tk.canRestore = .t)))
                 && decide (count .restore tr ≤ 1) && !tr.contains .join && !tr.contains .update)
      | none => "FAIL unparsable-observation"
    | none, _ => if obs = "bad-op" then "ok" else "FAIL bad-op-accepted"
    | _, _ => "FAIL unparsable-observation"
  | ["mon", reg, p, tks] =>
    match reg.toList, parsePolicy p, (splitList tks).mapM parseTick with
    | [c], some p, some tks =>
      match parseAns c, splitWs obs with
      | some reg, [res, trs] =>
        match parseRes res, (splitList trs).mapM parseTrace with
        | some res, some trs => verdict (holds reg p tks res trs)
        | _, _ => "FAIL unparsable-observation"
      | none, _ => if obs = "bad-op" then "ok" else "FAIL bad-op-accepted"
      | _, _ => "FAIL unparsable-observation"
    | _, _, _ => if obs = "bad-op" then "ok" else "FAIL bad-op-accepted"
  | _ => if obs = "bad-op" then "ok" else "FAIL bad-op-accepted"

def main (args : List String) : IO UInt32 := driverMain model monitor args
