import KeepVerif.DriverLib
import KeepVerif.Model.C18
open KeepVerif

/-- library view of one identity, as passed on the op line: key type, peer id, operator key. -/
structure PK where
  kt : String
  pid : String
  op : Option String
deriving DecidableEq

abbrev Env := C18.Envelope String String
abbrev Del := C18.Delivered String String String

def parseIdFact (s : String) : Option (Option PK) :=
  if s = "E" then some none else
  match s.splitOn "|" with
  | [kt, pid, op] => some (some ⟨kt, pid, if op = "~" then none else some op⟩)
  | _ => none

def isHex (s : String) : Bool :=
  s = "~" || (s.length % 2 = 0 && s.toList.all fun c => c.isDigit || ('a' ≤ c && c ≤ 'f'))

partial def parseEnv (s : String) : Option (Env × Option PK) :=
  match s.splitOn "/" with
  | [outer, typ, payload, seq, sender, idf, relay] =>
    -- through processPubsubMessage; the neighbour the message arrived from is not an input of
    -- the model (the binding is to the signed author `outer`)
    if isHex relay then parseEnv ("/".intercalate [outer, typ, payload, seq, sender, idf]) else none
  | [outer, typ, payload, seq, sender, idf] => do
    let seq ← seq.toNat?
    let f ← parseIdFact idf
    if isHex outer && isHex payload && isHex sender && seq < 2 ^ 64 then
      pure (⟨outer, typ, payload, seq, sender⟩, f)
    else none
  | _ => none

/-- the harness's unmarshaler: (field, value) byte pairs stored into a map; fails on an empty
    payload, a field byte 0xff or a trailing single byte. The content handed to the receiver is
    the canonical (sorted by field, last value wins) pair list of THIS payload. -/
def decodePairs : List UInt8 → Option (List (UInt8 × UInt8))
  | [] => some []
  | [_] => none
  | k :: v :: rest => if k = 0xff then none else (decodePairs rest).map ((k, v) :: ·)

def insertPair (p : UInt8 × UInt8) : List (UInt8 × UInt8) → List (UInt8 × UInt8)
  | [] => [p]
  | q :: qs => if q.1 < p.1 then q :: insertPair p qs else if q.1 = p.1 then p :: qs else p :: q :: qs

def decodePayload (_ : String) (p : String) : Option String :=
  if p = "~" then none else do
    let bytes ← parseHex p
    let pairs ← decodePairs bytes
    let canon := pairs.foldl (fun acc q => insertPair q acc) []
    pure (if canon.isEmpty then "~" else showHex (canon.flatMap fun (k, v) => [k, v]))

def mkLib (reg : List String) (table : List (String × Option PK)) : C18.Lib String PK String String String :=
  { registered := fun t => reg.contains t
    decodePayload := decodePayload
    decodeIdentity := fun b => (table.lookup b).join
    peerIdOf := fun pk => pk.pid
    toOperatorKey := fun pk => if pk.kt = "Secp256k1" then pk.op else none }

def parseOp (line : String) : Option (C18.Lib String PK String String String × List Env) :=
  match line.splitOn " " with
  | ["proc", reg, envs] => do
    let es ← (splitList envs).mapM parseEnv
    pure (mkLib (splitList reg) (es.map fun (e, f) => (e.sender, f)), es.map (·.1))
  | _ => none

def showDrop : C18.Drop → String
  | .type => "type" | .payload => "payload" | .identity => "identity"
  | .mismatch => "mismatch" | .keytype => "keytype"

def showOutcome : Except C18.Drop Del → String
  | .ok d => s!"D|{d.sender}|{d.key}|{d.typ}|{d.seq}|{d.payload}"
  | .error c => "X|" ++ showDrop c

def model (line : String) : String :=
  match parseOp line with
  | some (L, es) => showList (es.map fun e => showOutcome (C18.process L e))
  | none => "bad-op"

def parseOutcome (s : String) : Option (Option Del) :=
  match s.splitOn "|" with
  | ["X", _] => some none
  | ["D", sid, key, typ, seq, payload] => do
    let seq ← seq.toNat?
    pure (some ⟨sid, key, typ, seq, payload⟩)
  | _ => none

def monitor (op obs : String) : String :=
  match parseOp op with
  | none => if obs = "bad-op" then "ok" else "FAIL bad-op"
  | some (L, es) =>
    match (splitList obs).mapM parseOutcome with
    | none => "FAIL unparsable-observation"
    | some os =>
      if C18.holds L es os then "ok"
      else if (es.zip os).any (fun (e, o) => match o with
          | some d => !C18.holds1 L e (some d) &&
              (match L.decodePayload e.typ e.payload with
               | some p => C18.holds1 L e (some { d with payload := p })
               | none => false)
          | none => false) then "FAIL delivered-content-is-not-what-the-author-sent"
      else "FAIL sender-binding"

def main (args : List String) : IO UInt32 := driverMain model monitor args
