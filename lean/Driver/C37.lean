import KeepVerif.DriverLib
import KeepVerif.Model.C37
import KeepVerif.Gen.C37
open KeepVerif KeepVerif.C37

/-- the caching period (7 days, extracted); the harness cannot move the clock, every delivery
    happens "now". -/
def span37 : Nat := Gen.C37.cachePeriodSeconds

def lowerHexDigit? (c : Char) : Option Nat :=
  if '0' ≤ c ∧ c ≤ '9' then some (c.toNat - '0'.toNat)
  else if 'a' ≤ c ∧ c ≤ 'f' then some (c.toNat - 'a'.toNat + 10)
  else none

/-- canonical lower-case hex without leading zeros -/
def parseSeed (s : String) : Option Nat :=
  let cs := s.toList
  if cs.isEmpty || (cs.length > 1 && cs.head? == some '0') then none
  else cs.foldlM (fun acc c => do let d ← lowerHexDigit? c; pure (acc * 16 + d)) 0

def parseBytes32 (s : String) : Option (List UInt8) :=
  let cs := s.toList
  if cs.length != 64 then none else
  let rec go : List Char → Option (List UInt8)
    | a :: b :: rest => do
      let x ← lowerHexDigit? a
      let y ← lowerHexDigit? b
      let r ← go rest
      pure (UInt8.ofNat (x * 16 + y) :: r)
    | _ => some []
  go cs

def parseBlock (s : String) : Option Nat :=
  match s.toNat? with
  | some n => if toString n == s && n < 2 ^ 62 then some n else none
  | none => none

def parseEvent (tok : String) : Option Event :=
  match tok.splitOn "." with
  | ["s", x] => (parseSeed x).map .dkgStarted
  | ["b", x] => (parseSeed x).map .beaconDkgStarted
  | ["w", x] => (parseBytes32 x).map .walletClosed
  | ["r", x, h, b] => do
    let s ← parseSeed x
    let hh ← parseBytes32 h
    let bb ← parseBlock b
    pure (.resultSubmitted s hh bb)
  | _ => none

def parseEvents (s : String) : Option (List Event) :=
  let toks := splitList s
  if toks.isEmpty then none else toks.mapM parseEvent

def parseItem (tok : String) : Option Item :=
  match tok.splitOn "." with
  | ["t", x] =>
    match x.toNat? with
    | some n => if toString n == x && n < 2 ^ 40 && n % 1000 == 0 then some (.adv n) else none
    | none => none
  | _ => (parseEvent tok).map .ev

def parseItems (s : String) : Option (List Item) :=
  let toks := splitList s
  if toks.isEmpty then none else toks.mapM parseItem

def showBools (bs : List Bool) : String := showList (bs.map fun b => if b then 1 else 0)

/-- one particular schedule of the concurrent case (every goroutine runs to completion, one after
    the other); by `addGate_concurrent_*` every schedule gives the same counts. -/
def concModel (g : Nat) (evs : List Event) : List Nat :=
  let distinct := evs.eraseDups
  let hist := distinct.flatMap (fun e => List.replicate g e)
  let res := model span37 0 hist
  evs.map fun e => ((hist.zip res).filter (fun p => p.1 == e && p.2)).length

def model (line : String) : String :=
  match splitWs line with
  | ["seq", es] =>
    match parseItems es with
    | some items => showBools (runItems span37 0 Dedup.empty items)
    | none => "bad-op"
  | ["conc", g, r, es] =>
    match g.toNat?, r.toNat?, parseEvents es with
    | some g, some r, some evs =>
      if g < 1 || g > 64 || r < 1 || r > 5000 then "bad-op"
      else ",".intercalate ((concModel g evs).map fun c => s!"{c}-{c}")
    | _, _, _ => "bad-op"
  | _ => "bad-op"

def parsePair (s : String) : Option (Nat × Nat) :=
  match s.splitOn "-" with
  | [a, b] => do pure (← a.toNat?, ← b.toNat?)
  | _ => none

def parseBools (s : String) : Option (List Bool) :=
  (splitList s).mapM fun t => if t == "1" then some true else if t == "0" then some false else none

def monitor (op obs : String) : String :=
  match splitWs op with
  | ["seq", es] =>
    match parseItems es with
    | none => if obs == "bad-op" then "ok" else "FAIL bad-op-accepted"
    | some items =>
      match parseBools obs with
      | some bs =>
        if holdsItems span37 items bs then "ok" else "FAIL not-handled-exactly-once-per-period"
      | none => "FAIL unparsable-observation"
  | ["conc", _, _, es] =>
    match parseEvents es with
    | none => if obs == "bad-op" then "ok" else "FAIL bad-op-accepted"
    | some evs =>
      if obs == "bad-op" then "ok" else
      match (obs.splitOn ",").mapM parsePair with
      | some ps => if holdsConc evs ps then "ok" else "FAIL concurrent-delivery-not-handled-exactly-once"
      | none => "FAIL unparsable-observation"
  | _ => if obs == "bad-op" then "ok" else "FAIL bad-op-accepted"

def main (args : List String) : IO UInt32 := driverMain model monitor args
