import KeepVerif.DriverLib
import KeepVerif.Model.C47
open KeepVerif KeepVerif.C47

def showOpt (o : Option Nat) : String := match o with | some a => toString a | none => "-"

def showRet : Ret → String
  | .nil => "nil" | .timeout => "timeout" | .suberr => "suberr" | .errSigs => "err:sigs"
  | .errReg => "err:reg" | .errState => "err:state" | .errWait => "err:wait" | .hang => "HANG"

def parseRet : String → Option Ret
  | "nil" => some .nil | "timeout" => some .timeout | "suberr" => some .suberr
  | "err:sigs" => some .errSigs | "err:reg" => some .errReg | "err:state" => some .errState
  | "err:wait" => some .errWait | _ => none

def showMem (m : Mem) : String :=
  s!"{m.idx}/{showOpt m.await}/{if m.subs.isEmpty then "-" else "+".intercalate (m.subs.map toString)}/{showRet m.ret}"

def showGroup (t : Option Nat) (ms : List Mem) : String :=
  s!"T={showOpt t} {",".intercalate (ms.map showMem)}"

def parseOptNat (s : String) : Option (Option Nat) :=
  if s = "-" then some none else (s.toNat?).map some

def parseMem (s : String) : Option Mem :=
  match s.splitOn "/" with
  | [i, a, b, r] => do
    let idx ← i.toNat?
    let aw ← parseOptNat a
    let subs ← if b = "-" then some [] else (b.splitOn "+").mapM String.toNat?
    let ret ← parseRet r
    pure ⟨idx, aw, subs, ret⟩
  | _ => none

def parseGroup (obs : String) : Option (List Mem) :=
  match splitWs obs with
  | [_, ms] => (ms.splitOn ",").mapM parseMem
  | _ => none

def parseKind : Char → Option Kind
  | 's' => some .slot | 'e' => some .event | 't' => some .timeout | _ => none

def parseTie (s : String) (len : Nat) : Option (List Kind) := do
  let ks ← s.toList.mapM parseKind
  if ks.length = len ∧ ks.Nodup then some ks else none

def parseTfx : String → Option (Option Bool)
  | "t" => some (some true) | "f" => some (some false) | "x" => some none | _ => none

def parseWait : String → Option Wait
  | "-" => some .reached | "c" => some .cancelled | "w" => some .failed | _ => none

def parseState (s : String) : Option (Option Nat) :=
  if s = "x" then some none else (s.toNat?).map some

/-- parsed op: the model's group run and the property rule to monitor it with -/
def interp (line : String) : Option (Option Nat × List Mem × Rule × Nat) :=
  match splitWs line with
  | ["relay", n, step, entry, start, ev, tie, sf, ip] => do
    let n ← n.toNat?; let step ← step.toNat?; let entry ← (if entry = "-" then some 0 else parseHexNat entry)
    let start ← start.toNat?; let ev ← parseOptNat ev; let tie ← parseTie tie 3
    let ip ← parseTfx ip
    if n < 1 ∨ n > 255 then none else
    pure (some (start + n * step), relayGroup n step entry start ev tie (sf = "1") ip,
          relayRule n step entry start ev tie, n)
  | ["bdkg", n, honest, step, start, nsigs, reg, ev, tie] => do
    let n ← n.toNat?; let honest ← honest.toNat?; let step ← step.toNat?
    let start ← start.toNat?; let nsigs ← nsigs.toNat?; let reg ← parseTfx reg
    let tie ← parseTie tie 2
    -- `@`: the competing result was accepted during the registration pre-check, i.e. at the
    -- start block and before every slot
    let (ev, tie) ← if ev = "@" then some (some start, [Kind.event, Kind.slot])
                     else (parseOptNat ev).map (fun e => (e, tie))
    if n < 1 ∨ n > 255 ∨ honest > n then none else
    pure (none, bdkgGroup n honest step start nsigs reg ev tie, bdkgRule step start reg ev tie, n)
  | ["tdkg", n, q, cur, nsigs, state, w] => do
    let n ← n.toNat?; let q ← q.toNat?; let cur ← cur.toNat?; let nsigs ← nsigs.toNat?
    let state ← parseState state; let w ← parseWait w
    if n < 1 ∨ n > 255 ∨ q > n then none else
    pure (none, tdkgGroup n q cur nsigs state w,
          tdkgRule cur state w, n)
  | ["tinact", n, h, cur, nsigs, nonce, cn, w] => do
    let n ← n.toNat?; let h ← h.toNat?; let cur ← cur.toNat?; let nsigs ← nsigs.toNat?
    let nonce ← nonce.toNat?; let cn ← cn.toNat?; let w ← parseWait w
    if n < 1 ∨ n > 255 ∨ h > n then none else
    pure (none, tinactGroup n h cur nsigs nonce cn w, tinactRule cur nonce cn w, n)
  | _ => none

structure ApprOp where
  n : Nat
  submitter : Nat
  p : Nat
  prec : Nat
  seats : List Nat
  ev : Option Nat
  tie : List Kind

def parseAppr (line : String) : Option ApprOp :=
  match splitWs line with
  | ["tappr", n, submitter, sub, chal, prec, seats, ev, tie] => do
    let n ← n.toNat?; let submitter ← submitter.toNat?; let sub ← sub.toNat?
    let chal ← chal.toNat?; let prec ← prec.toNat?; let seats ← parseNats seats
    let ev ← parseOptNat ev; let tie ← parseTie tie 2
    if n < 1 ∨ n > 255 ∨ submitter < 1 ∨ submitter > n then none else
    if !(seats.all (fun s => decide (1 ≤ s ∧ s ≤ n))) ∨ ¬ seats.Nodup then none else
    pure ⟨n, submitter, precedenceStart sub chal, prec, seats, ev, tie⟩
  | _ => none

def parseTagged (pre s : String) : Option (List Nat) :=
  if s.startsWith pre then parseNats (s.drop pre.length).toString else none

def model (line : String) : String :=
  match parseAppr line with
  | some o =>
    let ws := apprAwaits o.submitter o.p o.prec o.seats
    s!"W={showList ws} A={showList (apprApprovals o.tie o.ev ws)}"
  | none =>
    match interp line with
    | some (t, ms, _, _) => showGroup t ms
    | none => "bad-op"

def monitorAppr (o : ApprOp) (obs : String) : String :=
  match splitWs obs with
  | [w, a] =>
    match parseTagged "W=" w, parseTagged "A=" a with
    | some ws, some as =>
      if holdsAppr o.submitter o.p o.prec o.seats o.tie o.ev ws as then "ok" else "FAIL approval-rule"
    | _, _ => "FAIL unparsable-observation"
  | _ => "FAIL unparsable-observation"

def monitor (op obs : String) : String :=
  match parseAppr op with
  | some o => monitorAppr o obs
  | none =>
  match interp op with
  | none => if obs = "bad-op" then "ok" else "FAIL bad-op"
  | some (_, _, rule, n) =>
    match parseGroup obs with
    | none => "FAIL unparsable-observation"
    | some ms =>
      if ms.map (·.idx) != members n then "FAIL members-missing"
      else if holds rule ms then "ok" else "FAIL slot-rule"

def main (args : List String) : IO UInt32 := driverMain model monitor args
