import KeepVerif.DriverLib
import KeepVerif.Model.C06
open KeepVerif KeepVerif.C06

def txt (s : String) : String := if s = "-" then "" else s

def two64 : Nat := 18446744073709551616

-- the token denotes bytes; `hex.EncodeToString` prints them in lower case
def parseChainPrev (s : String) : Option String := if s = "!" then none else some (txt s).toLower
def parseChainBlk (s : String) : Option (Option Nat) :=
  if s = "!" then some none else (s.toInt?).map (fun v => some (v.natAbs % two64))

def parseNotif4 (s : String) : Option Notif :=
  match s.splitOn ":" with
  | [b, p, cp, cb] => do
    let blk ← b.toNat?
    let cbv ← parseChainBlk cb
    pure ⟨blk, txt p, parseChainPrev cp, cbv⟩
  | _ => none

def parseNotif2 (cp : Option String) (cb : Option Nat) (s : String) : Option Notif :=
  match s.splitOn ":" with
  | [b, p] => do
    let blk ← b.toNat?
    pure ⟨blk, txt p, cp, cb⟩
  | _ => none

def showOut : Out → String | .A => "A" | .R => "R" | .P => "P" | .B => "B"
def parseOut : String → Option Out
  | "A" => some .A | "R" => some .R | "P" => some .P | "B" => some .B | _ => none
def showOuts (os : List Out) : String := showList (os.map showOut)
def parseOuts (s : String) : Option (List Out) := (splitList s).mapM parseOut

inductive Op
  | seq (ns : List Notif)
  | conc (pre conc : List Notif)

def parseOp (line : String) : Option Op :=
  match splitWs line with
  | ["seq", ns] => (splitList ns).mapM parseNotif4 |>.map Op.seq
  | ["conc", cp, cb, pre, conc] => do
    let cbv ← parseChainBlk cb
    let cpv := parseChainPrev cp
    let pre ← (splitList pre).mapM (parseNotif2 cpv cbv)
    let conc ← (splitList conc).mapM (parseNotif2 cpv cbv)
    pure (Op.conc pre conc)
  | _ => none

def model (line : String) : String :=
  match parseOp line with
  | some (.seq ns) => showOuts (run ns)
  | some (.conc pre conc) =>
    if conc.length ≤ 1 then showOuts (run pre) ++ " " ++ showOuts (runFrom (finalFrom init pre) conc)
    else "SKIP"
  | none => "bad-op"

def monitor (op obs : String) : String :=
  match parseOp op with
  | none => if obs = "bad-op" then "ok" else "FAIL bad-op"
  | some (.seq ns) =>
    match parseOuts obs with
    | none => "FAIL unparsable-observation"
    | some outs =>
      if outs.length ≠ ns.length then "FAIL outcome-count"
      else if !inDomain ns then "ok"   -- a start block 0 is outside the property's domain
      else if holds ns outs then "ok" else "FAIL dedup-rule"
  | some (.conc pre conc) =>
    match splitWs obs with
    | [a, b] =>
      match parseOuts a, parseOuts b with
      | some oa, some ob =>
        if oa ≠ run pre then "FAIL prefix-differs-from-model"
        else if ob.length ≠ conc.length then "FAIL outcome-count"
        else if conc.length > 6 then "FAIL too-many-concurrent-calls"
        else if holdsConc (finalFrom init pre) (conc.zip ob) then "ok"
        else "FAIL not-linearisable"
      | _, _ => "FAIL unparsable-observation"
    | _ => "FAIL unparsable-observation"

def main (args : List String) : IO UInt32 := driverMain model monitor args
