import KeepVerif.DriverLib
import KeepVerif.Model.C17
open KeepVerif

def parseStrat : String → Option C17.Strat
  | "std" => some .std
  | "backoff" => some .backoff
  | _ => none

def showObs (o : C17.Obs) : String :=
  let st := match o.st with
    | none => "-"
    | some b => s!"{b.tc}/{b.delay}/{b.rt}"
  let base := s!"r={showList o.cum} post={o.post} late={o.late} st={st}"
  o.flags.foldl (fun acc f => acc ++ " " ++ f) base

def validIdx (s : String) : Bool :=
  match parseNats s with
  | some l => l.all (fun v => 1 ≤ v && v ≤ 4096)
  | none => false

def parseOp3 (s bs p : String) : Option (C17.Strat × List Nat × Nat) := do
    let st ← parseStrat s
    let bursts ← parseNats bs
    let post ← p.toNat?
    if bursts.all (fun b => 1 ≤ b && b ≤ 4096) && post ≤ 64 then pure (st, bursts, post) else none

/-- `<strat> <bursts> <post> [<errs> <blocks>]`: which `retransmitFn` invocations fail or are slow
    is part of the history but not of the prediction — the schedule must not depend on it. -/
def parseOp (line : String) : Option (C17.Strat × List Nat × Nat) :=
  match splitWs line with
  | [s, bs, p, es, ks] => if validIdx es && validIdx ks then parseOp3 s bs p else none
  | [s, bs, p] => do
    let st ← parseStrat s
    let bursts ← parseNats bs
    let post ← p.toNat?
    if bursts.all (fun b => 1 ≤ b && b ≤ 4096) && post ≤ 64 then pure (st, bursts, post) else none
  | _ => none

def isTeardown (line : String) : Bool :=
  match splitWs line with
  | ["teardown", n] => match n.toNat? with | some k => 1 ≤ k && k ≤ 64 | none => false
  | _ => false

def model (line : String) : String :=
  if isTeardown line then "teardown done" else
  match parseOp line with
  | some (st, bursts, post) => showObs (C17.modelObs st bursts post)
  | none => "bad-op"

def stripPrefix? (p s : String) : Option String :=
  if s.startsWith p then some (s.drop p.length).toString else none

def parseState (s : String) : Option (Option C17.BState) :=
  if s = "-" then some none else
  match s.splitOn "/" with
  | [a, b, c] => do
    let a ← a.toNat?
    let b ← b.toNat?
    let c ← c.toNat?
    pure (some ⟨a, b, c⟩)
  | _ => none

def parseObs (obs : String) : Option C17.Obs :=
  match splitWs obs with
  | r :: p :: l :: s :: flags => do
    let cum ← parseNats (← stripPrefix? "r=" r)
    let post ← (← stripPrefix? "post=" p).toNat?
    let late ← (← stripPrefix? "late=" l).toNat?
    let st ← parseState (← stripPrefix? "st=" s)
    pure { cum := cum, post := post, late := late, st := st, flags := flags }
  | _ => none

def monitor (op obs : String) : String :=
  if isTeardown op then
    (if obs = "teardown done" then "ok" else "FAIL data-race-on-ticker-teardown") else
  match parseOp op with
  | none => if obs = "bad-op" then "ok" else "FAIL bad-op"
  | some (st, bursts, post) =>
    match parseObs obs with
    | none => "FAIL unparsable-observation"
    | some o =>
      if C17.holds st bursts post o then "ok"
      else if o.flags.contains "RACE" then "FAIL data-race-on-backoff-state"
      else if o.post != 0 || o.late != 0 then "FAIL tick-after-cancellation"
      else if !o.flags.isEmpty then "FAIL tick-lost-or-stalled"
      else "FAIL retransmission-schedule"

def main (args : List String) : IO UInt32 := driverMain model monitor args
