import KeepVerif.DriverLib
import KeepVerif.Model.C17
open KeepVerif

def parseStrat : String → Option C17.Strat
  | "std" => some .std
  | "backoff" => some .backoff
  | _ => none

def showObs (o : C17.Obs) : String :=
  let st := match o.st with
    | none => "-"
    | some b => s!"{b.tc}/{b.delay}/{b.rt}"
  let base := s!"r={showList o.cum} post={o.post} late={o.late} st={st}"
  o.flags.foldl (fun acc f => acc ++ " " ++ f) base

def validIdx (s : String) : Bool :=
  match parseNats s with
  | some l => l.all (fun v => 1 ≤ v && v ≤ 4096)
  | none => false

def parseOp3 (s bs p : String) : Option (C17.Strat × List Nat × Nat) := do
    let st ← parseStrat s
    let bursts ← parseNats bs
    let post ← p.toNat?
    if bursts.all (fun b => 1 ≤ b && b ≤ 4096) && post ≤ 64 then pure (st, bursts, post) else none

/-- `<strat> <bursts> <post> [<errs> <blocks>]`: which `retransmitFn` invocations fail or are slow
    is part of the history but not of the prediction — the schedule must not depend on it. -/
def parseOp (line : String) : Option (C17.Strat × List Nat × Nat) :=
  match splitWs line with
  | [s, bs, p, es, ks] => if validIdx es && validIdx ks then parseOp3 s bs p else none
  | [s, bs, p] => do
    let st ← parseStrat s
    let bursts ← parseNats bs
    let post ← p.toNat?
    if bursts.all (fun b => 1 ≤ b && b ≤ 4096) && post ≤ 64 then pure (st, bursts, post) else none
  | _ => none

def isTeardown (line : String) : Bool :=
  match splitWs line with
  | ["teardown", n] => match n.toNat? with | some k => 1 ≤ k && k ≤ 64 | none => false
  | _ => false

def parseREv (nreg : Nat) (t : String) : Option C17.REv :=
  if t = "r" then some .reg else if t = "t" then some .tick else
  match t.toList with
  | 'c' :: rest =>
    if rest.isEmpty || !rest.all Char.isDigit then none else
    match (String.ofList rest).toNat? with
    | some i => if i < nreg && i < 65536 then some (.cancel i) else none
    | none => none
  | _ => none

def parseREvs : Nat → List String → Option (List C17.REv)
  | _, [] => some []
  | nreg, t :: ts => do
    let e ← parseREv nreg t
    let rest ← parseREvs (if e == .reg then nreg + 1 else nreg) ts
    pure (e :: rest)

def parseReg (line : String) : Option (List C17.REv) :=
  match splitWs line with
  | ["reg", evs] => do
    let es ← parseREvs 0 (splitList evs)
    if C17.regCount es ≤ 12 && es.length ≤ 80 then pure es else none
  | _ => none

def showTicks (l : List Nat) : String := if l.isEmpty then "-" else ".".intercalate (l.map toString)

def showReg (obs : List (List Nat)) : String :=
  if obs.isEmpty then "-" else "|".intercalate (obs.zipIdx.map fun (o, i) => s!"{i}:{showTicks o}")

def parseRegObs (s : String) : Option (List (List Nat)) :=
  if s = "-" then some [] else
  (s.splitOn "|").mapM fun h =>
    match h.splitOn ":" with
    | [_, ts] => if ts = "-" then some [] else (ts.splitOn ".").mapM String.toNat?
    | _ => none

def model (line : String) : String :=
  if isTeardown line then "teardown done" else
  if let some es := parseReg line then showReg (C17.modelReg es) else
  match parseOp line with
  | some (st, bursts, post) => showObs (C17.modelObs st bursts post)
  | none => "bad-op"

def stripPrefix? (p s : String) : Option String :=
  if s.startsWith p then some (s.drop p.length).toString else none

def parseState (s : String) : Option (Option C17.BState) :=
  if s = "-" then some none else
  match s.splitOn "/" with
  | [a, b, c] => do
    let a ← a.toNat?
    let b ← b.toNat?
    let c ← c.toNat?
    pure (some ⟨a, b, c⟩)
  | _ => none

def parseObs (obs : String) : Option C17.Obs :=
  match splitWs obs with
  | r :: p :: l :: s :: flags => do
    let cum ← parseNats (← stripPrefix? "r=" r)
    let post ← (← stripPrefix? "post=" p).toNat?
    let late ← (← stripPrefix? "late=" l).toNat?
    let st ← parseState (← stripPrefix? "st=" s)
    pure { cum := cum, post := post, late := late, st := st, flags := flags }
  | _ => none

def monitor (op obs : String) : String :=
  if isTeardown op then
    (if obs = "teardown done" then "ok" else "FAIL data-race-on-ticker-teardown") else
  if let some es := parseReg op then
    (match splitWs obs with
     | main :: flags =>
       match parseRegObs main with
       | some o =>
         if C17.holdsReg es o (!flags.isEmpty) then "ok"
         else if o.length == C17.regCount es &&
             (o.zipIdx).any (fun (x, i) => (C17.windowOf i es 0 0 false).any (fun t => !x.contains t))
           then "FAIL live-handler-lost-a-tick"
         else if !flags.isEmpty then "FAIL tick-lost-or-stalled"
         else "FAIL handler-invoked-outside-its-lifetime"
       | none => "FAIL unparsable-observation"
     | [] => "FAIL unparsable-observation") else
  match parseOp op with
  | none => if obs = "bad-op" then "ok" else "FAIL bad-op"
  | some (st, bursts, post) =>
    match parseObs obs with
    | none => "FAIL unparsable-observation"
    | some o =>
      if C17.holds st bursts post o then "ok"
      else if o.flags.contains "RACE" then "FAIL data-race-on-backoff-state"
      else if o.post != 0 || o.late != 0 then "FAIL tick-after-cancellation"
      else if !o.flags.isEmpty then "FAIL tick-lost-or-stalled"
      else "FAIL retransmission-schedule"

def main (args : List String) : IO UInt32 := driverMain model monitor args
