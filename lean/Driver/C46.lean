import KeepVerif.DriverLib
import KeepVerif.Model.C46
open KeepVerif
open KeepVerif.C46

def parseAction : String → Option Action
  | "depositSweep" => some .depositSweep
  | "redemption" => some .redemption
  | "movingFunds" => some .movingFunds
  | "movedFundsSweep" => some .movedFundsSweep
  | _ => none

def canonNat (s : String) (bound : Nat) : Option Nat :=
  match s.toNat? with
  | some n => if toString n = s && n < bound then some n else none
  | none => none

/-- `tx <action> <cb> <k>`: the optional input count `k ≤ 40` (canonical decimal) is validated and
    dropped — the model's deadlines do not depend on the size of the signing batch. -/
def dropInputs (fs : List String) : List String :=
  match fs with
  | ["tx", a, s, k] => if (canonNat k 41).isSome then ["tx", a, s] else ["bad"]
  | fs => fs

def model (line : String) : String :=
  match dropInputs (splitWs line) with
  | ["tx", a, s] =>
    match parseAction a, canonNat s (2 ^ 63) with
    | some a, some cb =>
      let head := s!"start={start cb} expiry={expiry a cb} margin={compiledMargin a} bcast={compiledBcastSeconds a} delay={delaySeconds a}"
      if guardFails a cb then head ++ " guard-fails"
      else head ++ s!" signStart={signStart a cb} signEnd={signEnd a cb}"
    | _, _ => "bad-op"
  | ["hb", s, act, inact, rounds] =>
    match canonNat s (2 ^ 63), act.toNat?, inact.toNat?, rounds.toNat? with
    | some cb, some act, some inact, some rounds =>
      if act > 200 || inact > 200 || rounds < 1 || rounds > 6 then "bad-op" else
      let o := hbRun act inact rounds
      let deadlines := List.replicate o.signs (signEnd .heartbeat cb) ++ List.replicate o.claims (claimEnd cb)
      s!"start={start cb} expiry={expiry .heartbeat cb} signStarts={showList (List.replicate o.signs (signStart .heartbeat cb))} claims={o.claims} errors={o.errors} deadlines={showList deadlines}"
    | _, _, _, _ => "bad-op"
  | _ => "bad-op"

/-- `key=value` fields of an observation. -/
def field (obs key : String) : Option String :=
  (splitWs obs).findSome? fun t =>
    match t.splitOn "=" with
    | [k, v] => if k = key then some v else none
    | _ => none

def fieldNat (obs key : String) : Option Nat := (field obs key).bind String.toNat?

def badOr (obs : String) : String := if obs = "bad-op" then "ok" else "FAIL bad-op-accepted"

def monitor (op obs : String) : String :=
  match dropInputs (splitWs op) with
  | ["tx", a, s] =>
    match parseAction a, canonNat s (2 ^ 63) with
    | some a, some s =>
      match fieldNat obs "start", fieldNat obs "expiry", fieldNat obs "signStart", fieldNat obs "signEnd",
            fieldNat obs "margin", fieldNat obs "bcast", fieldNat obs "delay" with
      | some st, some e, some ss, some se, some m, some b, some d =>
        -- the action starts at the end of its coordination window; all deadlines against that start
        if decide (s < st) && holdsTx a st e ss se m b d then "ok" else "FAIL deadline-not-nested-in-validity-window"
      | _, _, _, _, _, _, _ => "FAIL no-signing-deadlines-observed"
    | _, _ => badOr obs
  | ["hb", s, act, inact, rounds] =>
    match canonNat s (2 ^ 63), act.toNat?, inact.toNat?, rounds.toNat? with
    | some s, some act, some inact, some rounds =>
      if act > 200 || inact > 200 || rounds < 1 || rounds > 6 then badOr obs else
      match fieldNat obs "start", fieldNat obs "expiry", (field obs "signStarts").bind parseNats,
            (field obs "deadlines").bind parseNats with
      | some st, some e, some ss, some ds =>
        if decide (s < st) && holdsHb st e ss ds then "ok" else "FAIL deadline-not-nested-in-validity-window"
      | _, _, _, _ => "FAIL unparsable-observation"
    | _, _, _, _ => badOr obs
  | _ => badOr obs

def main (args : List String) : IO UInt32 := driverMain model monitor args
