import KeepVerif.DriverLib
import KeepVerif.Model.C15
open KeepVerif
open KeepVerif.C15

def stripFlags (s : String) : String × Bool × Bool × Bool :=
  let cs := s.toList
  let flags := (cs.reverse.takeWhile (fun c => c = 'g' || c = 'e' || c = 'n'))
  (String.ofList (cs.take (cs.length - flags.length)), flags.contains 'g', flags.contains 'e', flags.contains 'n')

def parseSpec (s : String) : Option Spec :=
  let (body, g, e, n) := stripFlags s
  body.toNat?.map fun v => { need := v, gated := g, initErr := e, nextErr := n }

def parsePair (s : String) : Option (Nat × Nat) :=
  match s.splitOn "." with
  | [a, b] => do pure ((← a.toNat?), (← b.toNat?))
  | _ => none

def parseEv (s : String) : Option Ev :=
  if s = "i" then some .release else if s = "h" then some .hold
  else if s = "u" then some .unhold else if s = "x" then some .cancel else
  match s.toList with
  | 'm' :: r => (parsePair (String.ofList r)).bind fun (t, i) => if t ≤ 7 then some (.msg true ⟨t, i⟩) else none
  | 'M' :: r => (parsePair (String.ofList r)).bind fun (t, i) => if t ≤ 7 then some (.msg false ⟨t, i⟩) else none
  | 'F' :: r => match (String.ofList r).splitOn "." with
    | [t, i, c] => do
      let t ← t.toNat?
      let i ← i.toNat?
      let c ← c.toNat?
      if t ≤ 7 && c ≤ 5000 then some (.flood ⟨t, i⟩ c) else none
    | _ => none
  | 'B' :: r => match (String.ofList r).splitOn "." with
    | [t, i, c] => do
      let t ← t.toNat?
      let i ← i.toNat?
      let c ← c.toNat?
      if t ≤ 7 && c ≤ 5000 then some (.busy ⟨t, i⟩ c) else none
    | _ => none
  | _ => none

def parseOp (line : String) : Option (List Spec × List Ev) :=
  match splitWs line with
  | ["async", ch, evs] => do
    let specs ← (ch.splitOn ",").mapM parseSpec
    let evs ← (splitList evs).mapM parseEv
    if specs.isEmpty || specs.length > 8 then none
    pure (specs, evs)
  | _ => none

def showOut : Outcome → String
  | .final k => s!"final:{k}"
  | .errInitiate k => s!"err:initiate:{k}"
  | .errNext k => s!"err:next:{k}"
  | .ctx => "ctx"

def showLog : LogEv → String
  | .I k h => s!"I{k}/{h}"
  | .J k h => s!"J{k}/{h}"
  | .T k h => s!"T{k}/{h}"
  | .N k => s!"N{k}"
  | .R k t i => s!"R{k}.{t}.{i}"
  | .X k => s!"X{k}"

def showOutOpt : Option Outcome → String
  | some o => showOut o
  | none => "running"

def kh (r : List Char) : Option (Nat × Nat) :=
  match (String.ofList r).splitOn "/" with
  | [k, h] => do pure ((← k.toNat?), (← h.toNat?))
  | _ => none

/-- the history as `BaseAsyncState` stores it: per message type, ids in order of arrival -/
def showReal (hist : List Msg) : String :=
  let parts := (List.range 8).filterMap fun t =>
    let ids := (hist.filter (fun m => m.typ = t)).map (·.id)
    if ids.isEmpty then none else some (s!"{t}:" ++ ".".intercalate (ids.map toString))
  if parts.isEmpty then "-" else ";".intercalate parts

def chainOf (which : String) : Option (List String) :=
  if which = "dkg" then some Gen.C15.dkgChain
  else if which = "signing" then some Gen.C15.signingChain else none

def ones (n : Nat) : String := showList (List.replicate n 1)

/-- the real chain read from the sources, every `Next` handing the one history over -/
def chainLine (types : List String) : String :=
  s!"types={showList types} kept={ones types.length} same={ones types.length} end=nil"

def model (line : String) : String :=
  match splitWs line with
  | ["chain", w] => (match chainOf w with | some t => chainLine t | none => "bad-op")
  | _ =>
  match parseOp line with
  | none => "bad-op"
  | some (specs, evs) =>
    if !deterministic evs then "SKIP" else
    let s := runScript specs evs
    s!"seq={showList (initiated s.log)} out={showOutOpt s.out} hist={showList (s.hist.map fun m => s!"{m.typ}.{m.id}")} real={showReal s.hist} drop={s.dropped} log={showList (s.log.map showLog)}"

def dropPrefix (p s : String) : Option String :=
  if s.startsWith p then some (s.drop p.length).toString else none

def parseLogEv (s : String) : Option LogEv :=
  match s.toList with
  | 'I' :: r => (kh r).map fun (k, h) => .I k h
  | 'J' :: r => (kh r).map fun (k, h) => .J k h
  | 'N' :: r => (String.ofList r).toNat?.map .N
  | 'X' :: r => (String.ofList r).toNat?.map .X
  | 'T' :: r => match (String.ofList r).splitOn "/" with
    | [k, h] => do pure (.T (← k.toNat?) (← h.toNat?))
    | _ => none
  | 'R' :: r => match (String.ofList r).splitOn "." with
    | [k, t, i] => do pure (.R (← k.toNat?) (← t.toNat?) (← i.toNat?))
    | _ => none
  | _ => none

def parseOut (s : String) : Option Outcome :=
  if s = "ctx" then some .ctx else
  match s.splitOn ":" with
  | ["final", k] => k.toNat?.map .final
  | ["err", "initiate", k] => k.toNat?.map .errInitiate
  | ["err", "next", k] => k.toNat?.map .errNext
  | _ => none

def monitor (op obs : String) : String :=
  match splitWs op with
  | ["chain", w] =>
    (match chainOf w with
     | some t => if obs = chainLine t then "ok" else "FAIL real-chain-does-not-hand-over-one-history-or-differs-from-sources"
     | none => if obs = "bad-op" then "ok" else "FAIL bad-op")
  | _ =>
  match parseOp op with
  | none => if obs = "bad-op" then "ok" else "FAIL bad-op"
  | some _ =>
  if obs = "HANG" then "FAIL machine-hung (never reached the expected quiescent point / never consumed a delivered message)" else
  if obs.startsWith "PANIC" then "FAIL panic" else
  if obs.startsWith "LOST" then "FAIL delivered-messages-never-reached-Receive " ++ obs else
  match parseOp op with
  | none => "FAIL bad-op"
  | some (specs, evs) =>
    match splitWs obs with
    | [sq, out, hist, real, drop, lg] =>
      let parsed : Option (List Nat × Outcome × List (Nat × Nat) × String × List LogEv × Nat) := do
        let sq ← parseNats (← dropPrefix "seq=" sq)
        let out ← parseOut (← dropPrefix "out=" out)
        let hist ← (splitList (← dropPrefix "hist=" hist)).mapM parsePair
        let real ← dropPrefix "real=" real
        let lg ← (splitList (← dropPrefix "log=" lg)).mapM parseLogEv
        let drop ← (← dropPrefix "drop=" drop).toNat?
        pure (sq, out, hist, real, lg, drop)
      match parsed with
      | none => "FAIL unparsable-observation"
      | some (sq, out, hist, real, lg, drop) =>
        if !holdsLog specs (deliveredOf evs) lg then "FAIL transition-or-history-rule"
        else if hist.map (fun (t, i) => (⟨t, i⟩ : Msg)) ≠ histOf lg then "FAIL history-differs-from-received"
        else if real ≠ showReal (histOf lg) then "FAIL stored-history-differs-from-admitted-messages"
        else if sq ≠ initiated lg then "FAIL seq"
        else if !outcomeOk specs lg out then "FAIL terminal-outcome"
        else if out == .ctx && hist.length + drop ≠ (deliveredOf evs).length then
          "FAIL machine-alive-but-delivered-messages-never-reached-Receive"
        else
          -- after a hold, `i`/`x` act on whatever state the held machine is in: not predicted
          let afterHold := evs.dropWhile (· != .hold)
          if afterHold.any (fun e => e == .cancel || e == .release) then "ok" else
          let s := runScript specs evs
          if sq ≠ initiated s.log then "FAIL state-sequence-differs-from-schedule-independent-prediction"
          else if some out ≠ s.out then "FAIL outcome-differs-from-schedule-independent-prediction"
          else "ok"
    | _ => "FAIL unparsable-observation"

def main (args : List String) : IO UInt32 := driverMain model monitor args
