import KeepVerif.DriverLib
import KeepVerif.Model.C32
open KeepVerif

def parseInput (line : String) : Option C32.Input :=
  match splitWs line with
  | ["info", a, b, c, d, e, f, g] => do
    let latest ← a.toNat?
    let conf ← b.toNat?
    let fac ← c.toNat?
    let cur ← d.toNat?
    let dCur ← e.toNat?
    let dPrev ← f.toNat?
    let fail ← g.toNat?
    pure { latest, conf, f := fac, cur, dCur, dPrev, fail }
  | _ => none

def showOut : C32.Out → String
  | .err n => s!"err:{n}"
  | .panicDivZero => "PANIC division by zero"
  | .info w a r => s!"info {if w then 1 else 0} {a} {r}"

def parseOut (obs : String) : Option C32.Out :=
  match splitWs obs with
  | ["info", w, a, r] => do
    let a ← a.toNat?
    let r ← r.toNat?
    if w = "1" then pure (.info true a r) else if w = "0" then pure (.info false a r) else none
  | ["err:1"] => some (.err 1)
  | ["err:2"] => some (.err 2)
  | ["err:3"] => some (.err 3)
  | ["err:4"] => some (.err 4)
  | ["err:5"] => some (.err 5)
  | ["PANIC", "division", "by", "zero"] => some .panicDivZero
  | _ => none

def model (line : String) : String :=
  match parseInput line with
  | some i => showOut (C32.proofInfo i)
  | none => "bad-op"

def monitor (op obs : String) : String :=
  -- two-call discipline of the harness: the second call on the same chain handles must give the
  -- same answer and must not change the values the chains own
  if (obs.splitOn " #2:").length > 1 then "FAIL second-call-on-same-chain-differs" else
  if (obs.splitOn " mutated:").length > 1 then "FAIL chain-owned-value-mutated" else
  match parseInput op, parseOut obs with
  | some i, some o => if C32.holds i o then "ok" else "FAIL confirmations-rule"
  | none, _ => "FAIL bad-op"
  | _, none => "FAIL unparsable-observation"

def main (args : List String) : IO UInt32 := driverMain model monitor args
