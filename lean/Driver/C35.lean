import KeepVerif.DriverLib
import KeepVerif.Model.C35
import KeepVerif.Model.C35Loop
import KeepVerif.Gen.C35
open KeepVerif KeepVerif.C35

def canonNat? (s : String) (hi : Nat) : Option Nat :=
  match s.toNat? with
  | some n => if toString n == s && n ≤ hi then some n else none
  | none => none

def big : Nat := 2 ^ 40

def parseMsg (t : String) : Option Msg :=
  let parts := t.splitOn "."
  let parts := match parts with
    | [a, b, c, d, e, f, "s"] => [a, b, c, d, e, f]
    | ps => ps
  match parts with
  | [a, b, c, d, e, f] => do
    pure ⟨← canonNat? a 255, ← canonNat? b 1000, ← canonNat? c big, ← canonNat? d big,
          ← canonNat? e big, ← canonNat? f big⟩
  | _ => none

def parseMsgs (s : String) : Option (List Msg) := (splitList s).mapM parseMsg

def parseSmall (s : String) (hi : Nat) : Option (List Nat) := (splitList s).mapM (canonNat? · hi)

structure Case where
  p : Params
  A : List Msg
  B : List Msg
  /-- the attempt ends before `waitUntilAllDone` is called (failed signing attempt) -/
  noWait : Bool := false

def parseAttempt (operators : List Nat) : List String → Option Case
  | [inc, msg, att, to, a, b] => do
    let included ← parseSmall inc 255
    let message ← canonNat? msg big
    let attempt ← canonNat? att big
    let timeout ← canonNat? to big
    let A ← parseMsgs a
    let B ← if b == "nowait" then some [] else parseMsgs b
    if A.length + B.length > 400 then none
    else pure ⟨⟨operators, included, message, attempt, timeout⟩, A, B, b == "nowait"⟩
  | _ => none

def chunks6 : List String → Option (List (List String))
  | [] => some []
  | a :: b :: c :: d :: e :: f :: rest => do pure ([a, b, c, d, e, f] :: (← chunks6 rest))
  | _ => none

/-- one op line = the attempts run, in order, on ONE signingDoneCheck (`listen` starts every
    attempt from an empty set of confirmations, so the attempts are independent in the model) -/
def parseCases (line : String) : Option (List Case) :=
  match splitWs line with
  | "done" :: ops :: rest => do
    let operators ← parseSmall ops 1000
    if operators.isEmpty || operators.length > 255 || rest.length != 6 then none
    else do
      let c ← parseAttempt operators rest
      if c.noWait then none else pure [c]
  | "dones" :: ops :: rest => do
    let operators ← parseSmall ops 1000
    let cs ← chunks6 rest
    if operators.isEmpty || operators.length > 255 || cs.isEmpty || cs.length > 8 then none
    else cs.mapM (parseAttempt operators)
  | _ => none

def showOutcome : Outcome → String
  | .timeout => "timeout"
  | .mismatch => "mismatch"
  | .success sig eb => s!"ok.{if sig == 0 then "nil" else toString sig}.{eb}"

def loopConsts : C35Loop.Consts :=
  ⟨Gen.C35.loopDelayBlocks, Gen.C35.loopActiveBlocks, Gen.C35.loopProtocolBlocks, Gen.C35.loopCoolDownBlocks⟩

def model (line : String) : String :=
  if C35Loop.isLoopOp line then (if (C35Loop.parseCase line).isSome then "SKIP" else "bad-op") else
  match parseCases line with
  | none => "bad-op"
  | some cs =>
    ";".intercalate (cs.map fun c =>
      if c.noWait then
        -- only the listener ran: the confirmations recorded from A
        s!"nowait/{(runWait .fixed c.p [] (c.A.map .recv)).2.length}"
      else
        let r := scenario .fixed c.p c.A c.B
        s!"{showOutcome r.1}/{r.2}")

def parseOutcome (s : String) : Option Outcome :=
  match s.splitOn "." with
  | ["timeout"] => some .timeout
  | ["mismatch"] => some .mismatch
  | ["ok", sig, eb] => do
    let sg ← if sig == "nil" then some 0 else sig.toNat?
    pure (.success sg (← eb.toNat?))
  | _ => none

def monitorOne (c : Case) (obs : String) : String :=
  if c.noWait then
    match obs.splitOn "/" with
    | ["nowait", n] =>
      match n.toNat? with
      | some cnt => if holds c.p c.A .timeout cnt then "ok" else "FAIL excluded-member-recorded"
      | none => "FAIL unparsable-observation"
    | _ => "FAIL unparsable-observation"
  else
  match obs.splitOn "/" with
  | [o, n] =>
    match parseOutcome o, n.toNat? with
    | some out, some cnt =>
      if holds c.p (c.A ++ c.B) out cnt then "ok"
      else "FAIL signature-reported-without-every-included-member-or-excluded-member-recorded"
    | _, _ => "FAIL unparsable-observation"
  | _ => "FAIL unparsable-observation"

def monitor (op obs : String) : String :=
  if C35Loop.isLoopOp op then C35Loop.monitor loopConsts op obs else
  match parseCases op with
  | none => if obs == "bad-op" then "ok" else "FAIL bad-op-accepted"
  | some cs =>
    let os := obs.splitOn ";"
    if os.length != cs.length then "FAIL unparsable-observation" else
    match ((cs.zip os).map fun (c, o) => monitorOne c o).find? (· != "ok") with
    | some f => f
    | none => "ok"

def main (args : List String) : IO UInt32 := driverMain model monitor args
