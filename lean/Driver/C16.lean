import KeepVerif.DriverLib
import KeepVerif.Model.C16
open KeepVerif

def parseSmall (s : String) : Option Nat := do
  let n ← s.toNat?
  if s.all Char.isDigit && n ≤ 64 then pure n else none

def parseId (t : String) : Option C16.Id :=
  match t.toList with
  | c :: rest =>
    if rest.isEmpty then none else
    let s? := if c = 'a' then some 0 else if c = 'b' then some 1 else none
    match s?, (String.ofList rest).toNat? with
    | some s, some q => if rest.all Char.isDigit && q < 2 ^ 32 then some (s, q) else none
    | _, _ => none
  | [] => none

def showId (i : C16.Id) : String := (if i.1 = 0 then "a" else "b") ++ toString i.2

def showIds (sep : String) (l : List C16.Id) : String :=
  if l.isEmpty then "-" else sep.intercalate (l.map showId)

def parseStep (t : String) : Option C16.Step :=
  if t = "t" then some .tick else if t = "r" then some .reg else
  match t.toList with
  | k :: rest =>
    if rest.isEmpty then none else
    match k, ((String.ofList rest).splitOn ".").mapM parseSmall with
    | 's', some [x, y] => some (.send x y)
    | 'c', some [i] => some (.cancel i)
    | 'x', some [i, k] => some (.xcancel i k)
    | _, _ => none
  | [] => none

inductive Op
  | chan (r : Nat) (steps : List C16.Step)
  | filter (g : Nat) (msgs : List C16.Id)
  | seq (g m : Nat)
  | flood (n : Nat)
  | pfail (mask : List Bool)

def parseOp (line : String) : Option Op :=
  match line.splitOn " " with
  | ["chan", be, r, steps] => do
    let r ← parseSmall r
    let ss ← (splitList steps).mapM parseStep
    if (be = "local" || be = "libp2p") && 1 ≤ r && r ≤ 5
        && C16.validSteps (List.replicate r true) 0 ss then pure (.chan r ss) else none
  | ["filter", g, ids] => do
    let g ← parseSmall g
    let ms ← (splitList ids).mapM parseId
    if 1 ≤ g then pure (.filter g ms) else none
  | ["flood", n] => do
    let k ← n.toNat?
    if n.all Char.isDigit && k ≤ 200000 then pure (.flood k) else none
  | ["pfail", mask] =>
    if 1 ≤ mask.length && mask.length ≤ 16 && mask.all (fun c => c = '0' || c = '1')
    then some (.pfail (mask.toList.map (· = '1'))) else none
  | ["seq", be, g, m] => do
    let g ← parseSmall g
    let m ← m.toNat?
    if (be = "local" || be = "libp2p") && 1 ≤ g && 1 ≤ m && m ≤ 1000 && m.repr = m.repr then pure (.seq g m) else none
  | _ => none

def showChan (c : C16.Chan) : String :=
  "|".intercalate ((c.recvs.zipIdx).map fun (r, i) => s!"{i}:{showIds "." (C16.sortIds r.seen)}:0")

def model (line : String) : String :=
  match parseOp line with
  | some (.chan r ss) => showChan (C16.runChan r ss)
  | some (.filter _ ms) => showIds "," (C16.sortIds (ms.eraseDups))
  | some (.seq g m) => s!"n={g * m} distinct=true min=1 max={g * m} mono=true"
  -- n + 2 sequential calls, n + 1 distinct ids: by `at_most_once` / `exactly_once_when_finished`
  -- (the cache is never pruned) the repeated id is delivered once, every id once
  | some (.flood n) => s!"first=1 total={n + 1}"
  -- `C16.sendAll`: the sequence number is taken before the publish and never given back
  -- (`sendAll_fresh`); a failed first publish is an error of that Send only, the message is
  -- published by the retransmissions and delivered once
  | some (.pfail mask) =>
    let sent := C16.sendAll 0 mask
    s!"sends={sent.length} errs={(sent.filter (·.2)).length} fresh={C16.nodupB (sent.map fun p => ((0 : Nat), p.1))} wire={sent.length} delivered={sent.length} dup=0"
  | none => "bad-op"

def parseIdList (sep : String) (s : String) : Option (List C16.Id) :=
  if s = "-" then some [] else (s.splitOn sep).mapM parseId

def parseRecvObs (s : String) : Option (List C16.Id × Nat) :=
  match s.splitOn ":" with
  | [_, ids, late] => do
    let l ← parseIdList "." ids
    let n ← late.toNat?
    pure (l, n)
  | _ => none

def monitor (op obs : String) : String :=
  match parseOp op with
  | none => if obs = "bad-op" then "ok" else "FAIL bad-op"
  | some (.chan r ss) =>
    match obs.splitOn " " with
    | main :: flags =>
      match (main.splitOn "|").mapM parseRecvObs with
      | some ro =>
        if C16.holdsChan (C16.runChan r ss) ro (!flags.isEmpty) then "ok"
        else if !flags.isEmpty then "FAIL stall"
        else if ro.any (fun (_, late) => late != 0) then "FAIL handler-called-after-cancellation"
        else if ro.any (fun (ids, _) => !C16.nodupB ids) then "FAIL delivered-twice"
        else "FAIL unknown-message-delivered"
      | none => "FAIL unparsable-observation"
    | [] => "FAIL unparsable-observation"
  | some (.filter _ ms) =>
    match parseIdList "," obs with
    | some o => if C16.holdsFilter ms o then "ok"
                else if !C16.nodupB o then "FAIL delivered-twice" else "FAIL filter-lost-or-invented-a-message"
    | none => "FAIL unparsable-observation"
  | some (.flood n) =>
    if obs = s!"first=1 total={n + 1}" then "ok"
    else if obs.startsWith "first=2" then "FAIL delivered-twice-after-long-history" else "FAIL filter-lost-or-invented-a-message"
  | some (.seq g m) =>
    if obs = s!"n={g * m} distinct=true min=1 max={g * m} mono=true" then "ok" else "FAIL seqno-not-fresh"
  | some (.pfail _) =>
    if (obs.splitOn "fresh=false").length != 1 then "FAIL seqno-not-fresh"
    else if (obs.splitOn " dup=0").length == 1 then "FAIL delivered-twice"
    else if (obs.splitOn "stall:").length != 1 then "FAIL stall"
    else "ok"

def main (args : List String) : IO UInt32 := driverMain model monitor args
