import KeepVerif.DriverLib
import KeepVerif.Model.C29
open KeepVerif
open KeepVerif.C29

/-! line protocol of harness/c29 (see its header comment) -/

def hexOf (b : Bytes) : String :=
  if b.isEmpty then "_" else String.ofList (hexEnc b)

def bytesOf (s : String) : Option Bytes :=
  if s = "_" then some [] else hexDec s.toList

def errName : Err → String
  | .eof => "err:eof" | .noncanon => "err:noncanon" | .toomany => "err:toomany"
  | .toobig => "err:toobig" | .flag => "err:flag" | .size => "err:size" | .hex => "err:hex"
  | .malformed => "err:malformed"

def errOf : String → Option Err
  | "err:eof" => some .eof | "err:noncanon" => some .noncanon | "err:toomany" => some .toomany
  | "err:toobig" => some .toobig | "err:flag" => some .flag | "err:size" => some .size
  | "err:hex" => some .hex | "err:malformed" => some .malformed
  | _ => none

def parseIn (s : String) : Option TxIn :=
  match s.splitOn ":" with
  | [h, i, sc, sq, w] => do
    let h ← bytesOf h
    let i ← i.toNat?
    let sc ← bytesOf sc
    let sq ← sq.toNat?
    let w ← if w = "-" then some [] else (w.splitOn "/").mapM bytesOf
    pure { hash := h, index := i, script := sc, witness := w, sequence := sq }
  | _ => none

def parseOutp (s : String) : Option TxOut :=
  match s.splitOn ":" with
  | [v, sc] => do
    let v ← v.toNat?
    let sc ← bytesOf sc
    pure { value := v, script := sc }
  | _ => none

def parseTxFields (ver lock ins outs : String) : Option Tx := do
  let v ← ver.toNat?
  let l ← lock.toNat?
  let is ← (splitList ins).mapM parseIn
  let os ← (splitList outs).mapM parseOutp
  pure { version := v, ins := is, outs := os, locktime := l }

def showIn (i : TxIn) : String :=
  let w := if i.witness.isEmpty then "-" else "/".intercalate (i.witness.map hexOf)
  s!"{hexOf i.hash}:{i.index}:{hexOf i.script}:{i.sequence}:{w}"

def showOutp (o : TxOut) : String := s!"{o.value}:{hexOf o.script}"

def showTx (t : Tx) : String :=
  s!"{t.version};{t.locktime};{showList (t.ins.map showIn)};{showList (t.outs.map showOutp)}"

def showDec (r : Except Err Tx) : String :=
  match r with
  | .ok t => showTx t
  | .error e => errName e

def parseDec (s : String) : Option (Except Err Tx) :=
  match errOf s with
  | some e => some (.error e)
  | none =>
    match s.splitOn ";" with
    | [v, l, i, o] => (parseTxFields v l i o).map .ok
    | _ => none

def showHeader (h : Header) : String :=
  s!"{h.version};{hexOf h.prev};{hexOf h.merkle};{h.time};{h.bits};{h.nonce}"

def parseHeader (s : String) : Option Header :=
  match s.splitOn ";" with
  | [v, p, m, t, b, n] => do
    let v ← v.toNat?
    let p ← bytesOf p
    let m ← bytesOf m
    let t ← t.toNat?
    let b ← b.toNat?
    let n ← n.toNat?
    pure { version := v, prev := p, merkle := m, time := t, bits := b, nonce := n }
  | _ => none

def showHashRes (r : Except Err Bytes) : String :=
  match r with
  | .ok h => hexOf h
  | .error e => errName e

def model (line : String) : String :=
  match splitWs line with
  | ["tx", v, l, i, o] =>
    match parseTxFields v l i o with
    | none => "bad-op"
    | some tx =>
      let ob := txObs tx
      s!"{hexOf ob.std} {hexOf ob.wit} {showDec ob.dstd} {showDec ob.dwit} {hexOf ob.v} {hexOf ob.i} {hexOf ob.o} {hexOf ob.l} {if ob.hashEq then 1 else 0}"
  | ["raw", h] =>
    match bytesOf h with
    | none => "bad-op"
    | some b => showDec (fstOf (deserialize b))
  | ["cs", n] =>
    match n.toNat? with
    | none => "bad-op"
    | some n =>
      let b := csEnc n
      match readCompactSizeUint b with
      | .ok (v, len) => s!"{hexOf b} {v} {len}"
      | .error e => s!"{hexOf b} {errName e}"
  | ["csraw", h] =>
    match bytesOf h with
    | none => "bad-op"
    | some b =>
      match readCompactSizeUint b with
      | .ok (v, len) => s!"{v} {len}"
      | .error e => errName e
  | ["script", h] =>
    match bytesOf h with
    | none => "bad-op"
    | some s =>
      let d := toVarLenData s
      s!"{hexOf d} {showHashRes (newScriptFromVarLenData d)}"
  | ["varlen", h] =>
    match bytesOf h with
    | none => "bad-op"
    | some d => showHashRes (newScriptFromVarLenData d)
  | ["hash", h] =>
    match bytesOf h with
    | none => "bad-op"
    | some b =>
      let si := hashHex b false
      let sr := hashHex b true
      s!"{String.ofList si} {String.ofList sr} {showHashRes (newHashFromString si false)} {showHashRes (newHashFromString sr true)} {showHashRes (newHash b true)} {String.ofList si}"
  | ["hashstr", s, o] =>
    let s := if s = "_" then "" else s
    showHashRes (newHashFromString s.toList (o = "1"))
  | ["hdr", h] =>
    match bytesOf h with
    | none => "bad-op"
    | some b =>
      let hd := deserializeHeader b
      s!"{showHeader hd} {hexOf (serializeHeader hd)}"
  | ["hdrf", f] =>
    match parseHeader f with
    | none => "bad-op"
    | some hd =>
      let raw := serializeHeader hd
      s!"{hexOf raw} {showHeader (deserializeHeader raw)}"
  | _ => "bad-op"

def isPrefix (a b : Bytes) : Bool := decide (a.length ≤ b.length) && decide (b.take a.length = a)

/-- the witness format written even when no input has a witness (marker, flag, empty stacks):
    btcd accepts it on decode although it never writes it -/
def serializeFlagged (tx : Tx) : Bytes :=
  le 4 tx.version ++ [0, 1] ++ csEnc tx.ins.length ++ tx.ins.flatMap encTxIn ++
  csEnc tx.outs.length ++ tx.outs.flatMap encTxOut ++
  tx.ins.flatMap (fun i => encWitness i.witness) ++ le 4 tx.locktime

/-- encode∘decode on the implementation's observation: a successfully decoded transaction is
    well-formed and re-encodes to exactly the bytes the decoder consumed. -/
def rawHolds (b : Bytes) (tx : Tx) : Bool :=
  wfTx tx && (isPrefix (serialize true tx) b || isPrefix (serializeFlagged tx) b)

def monitor (op obs : String) : String :=
  -- two-call discipline of the harness: results held across a second call must not change,
  -- and the serialized transaction itself must not be modified
  if (obs.splitOn " ALIASED").length > 1 then "FAIL result-overwritten-by-later-call" else
  if (obs.splitOn " MUTATED").length > 1 then "FAIL input-transaction-mutated" else
  match splitWs op, splitWs obs with
  | ["tx", v, l, i, o], [s, w, ds, dw, sv, si, so, sl, he] =>
    match parseTxFields v l i o, bytesOf s, bytesOf w, parseDec ds, parseDec dw,
          bytesOf sv, bytesOf si, bytesOf so, bytesOf sl with
    | some tx, some s, some w, some ds, some dw, some sv, some si, some so, some sl =>
      let ob : TxObs := { std := s, wit := w, dstd := ds, dwit := dw, v := sv, i := si, o := so,
                          l := sl, hashEq := he = "1" }
      if holdsTx tx ob then "ok" else "FAIL tx-roundtrip"
    | _, _, _, _, _, _, _, _, _ => "FAIL unparsable-observation"
  | ["raw", h], [r] =>
    match bytesOf h, parseDec r with
    | some _, some (.error _) => "ok"
    | some b, some (.ok tx) => if rawHolds b tx then "ok" else "FAIL decoded-tx-does-not-reencode-to-input"
    | _, _ => "FAIL unparsable-observation"
  | ["cs", n], [h, v, len] =>
    match n.toNat?, bytesOf h, v.toNat?, len.toNat? with
    | some n, some b, some v, some len =>
      if v = n && len = b.length && b.length = csSize n then "ok" else "FAIL compact-size-roundtrip"
    | _, _, _, _ => "FAIL unparsable-observation"
  | ["csraw", h], [v, len] =>
    match bytesOf h, v.toNat?, len.toNat? with
    | some b, some v, some len =>
      if csEnc v = b.take len && len = csSize v && decide (v < 18446744073709551616) then "ok"
      else "FAIL compact-size-noncanonical-accepted"
    | _, _, _ => "FAIL unparsable-observation"
  | ["csraw", _], [e] => if (errOf e).isSome then "ok" else "FAIL unparsable-observation"
  | ["script", h], [d, back] =>
    match bytesOf h, bytesOf d, bytesOf back with
    | some s, some d, some back =>
      if back = s && d.drop (d.length - s.length) = s then "ok" else "FAIL varlen-roundtrip"
    | _, _, _ => "FAIL varlen-roundtrip"
  | ["varlen", h], [r] =>
    match bytesOf h, errOf r, bytesOf r with
    | some _, some _, _ => "ok"
    | some d, none, some s => if toVarLenData s = d then "ok" else "FAIL varlen-accepts-noncanonical"
    | _, _, _ => "FAIL unparsable-observation"
  | ["hash", h], [si, sr, bi, br, nr, st] =>
    match bytesOf h, bytesOf bi, bytesOf br, bytesOf nr with
    | some b, some bi, some br, some nr =>
      if bi = b && br = b && nr = b.reverse && si.toList = hexEnc b && sr.toList = hexEnc b.reverse
         && st = si then "ok" else "FAIL hash-roundtrip"
    | _, _, _, _ => "FAIL hash-roundtrip"
  | ["hashstr", str, o], [r] =>
    let str := if str = "_" then "" else str
    match errOf r, bytesOf r with
    | some .size, _ => if str.length ≠ 64 then "ok" else "FAIL hash-string-size-error-on-64-chars"
    | some .hex, _ =>
      if str.length = 64 && (hexDec str.toList).isNone then "ok" else "FAIL hash-string-hex-error-on-valid-hex"
    | some _, _ => "FAIL unexpected-error-class"
    | none, some h =>
      let shown := if o = "1" then h.reverse else h
      if h.length = 32 && hexEnc shown = str.toList.map Char.toLower then "ok"
      else "FAIL hash-string-roundtrip"
    | none, none => "FAIL unparsable-observation"
  | ["hdr", h], [_, back] => if back = h then "ok" else "FAIL header-roundtrip"
  | ["hdrf", f], [_, back] => if back = f then "ok" else "FAIL header-roundtrip"
  | _, _ => "FAIL unparsable-observation"

def main (args : List String) : IO UInt32 := driverMain model monitor args
