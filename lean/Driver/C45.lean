import KeepVerif.DriverLib
import KeepVerif.Model.C45
open KeepVerif
open KeepVerif.C45

inductive Tok where
  | act (a : Act) | work

def parseTok (s : String) : Option Tok :=
  if s = "C" then some (.act .check)
  else if s = "A" then some (.act .compute)
  else if s = "W" then some .work
  else if s.startsWith "L" then (s.drop 1).toString.toNat?.map (fun i => .act (.lock i))
  else if s.startsWith "U" then (s.drop 1).toString.toNat?.map (fun i => .act (.unlock i))
  else none

/-- a group: either the `W` probe or a list of concurrent actions. -/
inductive Grp where
  | work | overlap | acts (as : List Act)

def parseGrp (s : String) : Option Grp :=
  if s = "O" then some .overlap else
  -- K<i>: n Locks of latch i from many goroutines, then n Unlocks: the latch is back where it was
  if s.startsWith "K" && ((s.drop 1).toString.toNat?).isSome then some (.acts []) else
  match (s.splitOn "|").mapM parseTok with
  | some [.work] => some .work
  | some toks => (toks.mapM fun (t : Tok) => match t with | Tok.act a => some a | Tok.work => none).map Grp.acts
  | none => none

def parseScript (s : String) : Option (List Grp) := (splitList s).mapM parseGrp

def showFlags (fs : List Bool) : String :=
  if fs.isEmpty then "-" else String.ofList (fs.map fun b => if b then '1' else '0')

def showView (v : View) : String :=
  s!"{if v.working then "w" else "s"}:{v.stops}:{v.active}:{showFlags v.flags}:{v.panics}"

def parseFlags (s : String) : Option (List Bool) :=
  if s = "-" then some [] else s.toList.mapM fun c => if c = '1' then some true else if c = '0' then some false else none

def parseView (s : String) : Option View :=
  match s.splitOn ":" with
  | [w, st, ac, fl, pn] =>
    match st.toNat?, ac.toNat?, parseFlags fl, pn.toNat? with
    | some st, some ac, some fl, some pn =>
      if w = "w" then some ⟨true, st, ac, fl, pn⟩ else if w = "s" then some ⟨false, st, ac, fl, pn⟩ else none
    | _, _, _, _ => none
  | _ => none

def initState (nproto nworkers : Nat) : St := runSteps (init nproto) (List.replicate nworkers .compute)

def dedup (l : List St) : List St := l.eraseDups

/-- model: predicted observation, or SKIP when a group's outcome depends on the schedule. -/
def modelRun (states : List St) : List Grp → Option (List String)
  | [] => some []
  | .work :: rest =>
    match (states.map workOnce).eraseDups with
    | [k] => (modelRun states rest).map (s!"i{k}" :: ·)
    | _ => none
  | .overlap :: rest =>
    let next := dedup (states.map overlapRun)
    match (next.map view).eraseDups with
    | [v] => (modelRun next rest).map (showView v :: ·)
    | _ => none
  | .acts as :: rest =>
    let next := dedup (states.flatMap (groupOutcomes · as))
    match (next.map view).eraseDups with
    | [v] => (modelRun next rest).map (showView v :: ·)
    | _ => none

def parseLine (line : String) : Option (Nat × Nat × List Grp) :=
  match splitWs line with
  | ["sched", np, nw, script] =>
    match np.toNat?, nw.toNat?, parseScript script with
    | some np, some nw, some gs => some (np, nw, gs)
    | _, _, _ => none
  | _ => none

/-- `tss <concurrency>`: the real TSS pre-parameter generation must be gone after the check that
    saw the protocol executing (`stopped_means_no_live_worker`: its context is cancelled). -/
def isTss (line : String) : Bool :=
  match splitWs line with
  | ["tss", _] => true
  | _ => false

def model (line : String) : String :=
  if isTss line then "quiet" else
  match parseLine line with
  | some (np, nw, gs) =>
    match modelRun [initState np nw] gs with
    | some outs => showList outs
    | none => "SKIP"
  | none => "bad-op"

def monitorRun (np : Nat) (states : List St) (workers : Nat) : List Grp → List String → String
  | [], [] => "ok"
  | .work :: rest, o :: os =>
    match (if o.startsWith "i" then (o.drop 1).toString.toNat? else none) with
    | some k =>
      let st := states.filter (workOnce · = k)
      if st.isEmpty then s!"FAIL worker-iterations-not-allowed {o}"
      else monitorRun np st workers rest os
    | none => "FAIL unparsable-observation"
  | .overlap :: rest, o :: os =>
    match parseView o with
    | some v =>
      let next := (dedup (states.map overlapRun)).filter (view · = v)
      if !viewInvOk v then s!"FAIL stopped-with-live-worker-or-lost-context {o}"
      else if next.isEmpty then s!"FAIL overlapping-checks-outcome-not-allowed {o}"
      else monitorRun np next workers rest os
    | none => "FAIL unparsable-observation"
  | .acts as :: rest, o :: os =>
    match parseView o with
    | some v =>
      let workers' := workers + (as.filter (· = .compute)).length
      let next := (dedup (states.flatMap (groupOutcomes · as))).filter (view · = v)
      if !viewInvOk v then s!"FAIL stopped-with-live-worker-or-lost-context {o}"
      else if next.isEmpty then s!"FAIL outcome-not-allowed-by-any-schedule {o}"
      else if as = [.check] && !quiescentCheckOk np workers' v then s!"FAIL check-rule {o}"
      else monitorRun np next workers' rest os
    | none => "FAIL unparsable-observation"
  | _, _ => "FAIL observation-length"

def monitor (op obs : String) : String :=
  if isTss op then (if obs = "quiet" then "ok" else s!"FAIL generation-work-not-stopped {obs}") else
  match parseLine op with
  | some (np, nw, gs) => monitorRun np [initState np nw] nw gs (splitList obs)
  | none => "FAIL bad-op"

def main (args : List String) : IO UInt32 := driverMain model monitor args
