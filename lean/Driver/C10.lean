import KeepVerif.DriverLib
import KeepVerif.Model.C10
open KeepVerif KeepVerif.C09 KeepVerif.C10

/-- `.`-separated raw Uint32 stream (`-` = empty) -/
def parseStream (s : String) : Option (List Nat) :=
  if s = "-" || s = "" then some [] else (s.splitOn ".").mapM String.toNat?

def showOut : Out → String
  | .ok e => "ok " ++ showList e
  | .err => "err"
  | .panic => "panic"

def parseOut (s : String) : Option Out :=
  match splitWs s with
  | ["ok", l] => (parseNats l).map Out.ok
  | ["err"] => some .err
  | ["panic"] => some .panic
  | _ => none

def model (line : String) : String :=
  match splitWs line with
  | ["ssel", ops, thr, _msg, _attempt, ready, s1, s2] =>
    match parseNats ops, thr.toNat?, parseNats ready, parseStream s1, parseStream s2 with
    | some ops, some thr, some ready, some s1, some s2 =>
      showOut (signingSelection (goShuffle s1) (goShuffle s2) ops thr ready)
    | _, _, _, _, _ => "bad-op"
  | ["dsel", ops, q, _seed, attempt, ready, s] =>
    match parseNats ops, q.toNat?, attempt.toNat?, parseNats ready, parseStream s with
    | some ops, some q, some a, some ready, some s => showOut (dkgSelection (goShuffle s) ops q a ready)
    | _, _, _, _, _ => "bad-op"
  | _ => "bad-op"

def monitor (op obs : String) : String :=
  match splitWs op with
  | ["ssel", ops, thr, _msg, _attempt, ready, _, _] =>
    match parseNats ops, thr.toNat?, parseNats ready, parseOut obs with
    | some ops, some thr, some ready, some o =>
      if holdsSigning ops thr ready o then "ok" else "FAIL signing-selection-rule"
    | some _, some _, some _, none => "FAIL " ++ obs
    | _, _, _, _ => "FAIL bad-op"
  | ["dsel", ops, q, _seed, _attempt, ready, _] =>
    match parseNats ops, q.toNat?, parseNats ready, parseOut obs with
    | some ops, some q, some ready, some o =>
      if holdsDkg ops q ready o then "ok" else "FAIL dkg-selection-rule"
    | some _, some _, some _, none => "FAIL " ++ obs
    | _, _, _, _ => "FAIL bad-op"
  | _ => "FAIL bad-op"

def main (args : List String) : IO UInt32 := driverMain model monitor args
