import KeepVerif.DriverLib
import KeepVerif.Model.C43
open KeepVerif
open KeepVerif.C43

def parseAns43 : String → Option Ans
  | "t" => some .t | "f" => some .f | "e" => some .e | _ => none

def showAns43 : Ans → String
  | .t => "t" | .f => "f" | .e => "e"

/-- canonical decimal (no leading zeros / signs) below 2^64, or `e`. -/
def parseNumOrE (s : String) : Option (Option Nat) :=
  if s = "e" then some none else
  match s.toNat? with
  | some n => if toString n = s && n < W then some (some n) else none
  | none => none

def parseNum (s : String) : Option Nat :=
  match parseNumOrE s with
  | some (some n) => some n
  | _ => none

def parseSub : String → Option Bool
  | "o" => some true | "e" => some false | _ => none

/-- queue entries with an optional repeat count `vxN` (1 ≤ N ≤ 500). -/
def expandReps (s : String) : Option (List String) :=
  (splitList s).foldr (fun x acc => do
    let rest ← acc
    match x.splitOn "x" with
    | [v] => pure (v :: rest)
    | [v, c] =>
      match c.toNat? with
      | some n => if n ≥ 1 && n ≤ 500 && toString n = c && v ≠ "" then pure (List.replicate n v ++ rest) else none
      | none => none
    | _ => none) (some [])

def parseWorld (fs : List String) : Option World :=
  match fs with
  | [r, a, h, e, l, s, f] => do
    let r ← (← expandReps r).mapM parseAns43
    let a ← (← expandReps a).mapM parseAns43
    let h ← (← expandReps h).mapM parseNumOrE
    let e ← (← expandReps e).mapM parseNumOrE
    let l ← (← expandReps l).mapM parseNumOrE
    let s ← (← expandReps s).mapM parseSub
    let f ← (← expandReps f).mapM parseNum
    pure ⟨r, a, h, e, l, s, f⟩
  | _ => none

def showOpt : Option Nat → String
  | some n => toString n
  | none => "e"

def showRange (first count : Nat) : String :=
  if count = 0 then "0:0" else toString first ++ ":" ++ toString count

def showEv : Ev → String
  | .ready a => "y:" ++ showAns43 a
  | .auth a => "a:" ++ showAns43 a
  | .authRefund a => "f:" ++ showAns43 a
  | .height v => "h:" ++ showOpt v
  | .epoch v => "c:" ++ showOpt v
  | .len v => "l:" ++ showOpt v
  | .fetch first count => "g" ++ toString first ++ ":" ++ toString count
  | .submit refund first count => (if refund then "W" else "R") ++ showRange first count

def parsePair (s : String) : Option (Nat × Nat) :=
  match s.splitOn ":" with
  | [a, b] => do
    let a ← a.toNat?
    let b ← b.toNat?
    pure (a, b)
  | _ => none

def parseEv (s : String) : Option Ev :=
  match s.toList with
  | 'y' :: ':' :: r => (parseAns43 (String.ofList r)).map .ready
  | 'a' :: ':' :: r => (parseAns43 (String.ofList r)).map .auth
  | 'f' :: ':' :: r => (parseAns43 (String.ofList r)).map .authRefund
  | 'h' :: ':' :: r => (parseNumOrE (String.ofList r)).map .height
  | 'c' :: ':' :: r => (parseNumOrE (String.ofList r)).map .epoch
  | 'l' :: ':' :: r => (parseNumOrE (String.ofList r)).map .len
  | 'g' :: r => (parsePair (String.ofList r)).map fun p => .fetch p.1 p.2
  | 'R' :: r => (parsePair (String.ofList r)).map fun p => .submit false p.1 p.2
  | 'W' :: r => (parsePair (String.ofList r)).map fun p => .submit true p.1 p.2
  | _ => none

def fuelOf (w : World) : Nat := w.heights.length + 2

def showSess : SessResult → String
  | .noGenesis => "nogenesis" | .unauthorized => "unauthorized" | .error => "error" | .fin => "end"

def model (line : String) : String :=
  match splitWs line with
  | kind :: mode :: rest =>
    if mode ≠ "p" && mode ≠ "d" then "bad-op" else
    match parseWorld rest with
    | some w =>
      let dp := mode = "d"
      if kind = "loop" then
        showList ((controlLoop window target dp (fuelOf w) (w.ready.length + 2) w).map showEv)
      else if kind = "sess" then
        let r := session window target dp (fuelOf w) w
        showSess r.2.1 ++ " " ++ showList (r.1.map showEv)
      else "bad-op"
    | none => "bad-op"
  | _ => "bad-op"

def badOr (obs : String) : String := if obs = "bad-op" then "ok" else "FAIL bad-op-accepted"

def monitor (op obs : String) : String :=
  match splitWs op with
  | kind :: mode :: rest =>
    if (mode ≠ "p" && mode ≠ "d") || (kind ≠ "loop" && kind ≠ "sess") then badOr obs else
    match parseWorld rest with
    | some _ =>
      let dp := mode = "d"
      let evsStr := if kind = "loop" then some obs else
        match splitWs obs with
        | [_, e] => some e
        | _ => none
      match evsStr with
      | some es =>
        match (splitList es).mapM parseEv with
        | some evs => if holds window target dp evs then "ok" else "FAIL retarget-not-permitted-or-wrong-headers"
        | none => "FAIL unparsable-observation"
      | none => "FAIL unparsable-observation"
    | none => badOr obs
  | _ => badOr obs

def main (args : List String) : IO UInt32 := driverMain model monitor args
