import KeepVerif.DriverLib
import KeepVerif.Model.C30
open KeepVerif
open KeepVerif.C30

def isSmallByte (fb : Nat) : Bool := fb ≤ 16 || fb = 0x81

/-- `kind:sigLen:hiS:rlen:firstByte` -/
def parseIn (s : String) : Option (InKind × Nat) :=
  match s.splitOn ":" with
  | [k, sl, _, rl, fb] => do
    let sl ← sl.toNat?
    let rl ← rl.toNat?
    let fb ← fb.toNat?
    match k with
    | "p" => pure (.pkh, sl)
    | "w" => pure (.wpkh, sl)
    | "s" => pure (.sh rl (isSmallByte fb), sl)
    | "S" => pure (.wsh rl (isSmallByte fb), sl)
    | _ => none
  | _ => none

def parseOut : String → Option OutKind
  | "p" => some .pkh
  | "w" => some .wpkh
  | "s" => some .sh
  | "S" => some .wsh
  | _ => none

def showOpt : Option Nat → String
  | some n => toString n
  | none => "err"

inductive Op
  | size (ins : List (InKind × Nat)) (outs : List OutKind)
  | der (r s : Nat)
  | flow (est real : Nat)
  | steps (qs : List (Option Nat)) (real : Option Nat)

def parseStep (s : String) : Option Step :=
  match s.splitOn ":" with
  | ["q"] => some .query
  | ["ip", n] => do pure (.addIns .pkh (← n.toNat?))
  | ["iw", n] => do pure (.addIns .wpkh (← n.toNat?))
  | ["is", n, r] => do pure (.addIns (.sh (← r.toNat?) false) (← n.toNat?))
  | ["iS", n, r] => do pure (.addIns (.wsh (← r.toNat?) false) (← n.toNat?))
  | ["op", n] => do pure (.addOuts .pkh (← n.toNat?))
  | ["ow", n] => do pure (.addOuts .wpkh (← n.toNat?))
  | ["os", n] => do pure (.addOuts .sh (← n.toNat?))
  | ["oS", n] => do pure (.addOuts .wsh (← n.toNat?))
  | _ => none

def parseOptSig (s : String) : Option (Option Nat) :=
  if s = "-" then some none else s.toNat?.map some

/-- `e:72` / `n:71` -/
def parseDep (s : String) : Option (Bool × Nat) :=
  match s.splitOn ":" with
  | ["e", sl] => do pure (true, ← sl.toNat?)
  | ["n", sl] => do pure (false, ← sl.toNat?)
  | _ => none

def parseOp (line : String) : Option Op :=
  match splitWs line with
  | ["size", ins, outs] => do
    let ins ← (splitList ins).mapM parseIn
    if ins.isEmpty then none else
    pure (.size ins (← (splitList outs).mapM parseOut))
  | ["der", r, s] => do pure (.der (← parseHexNat r) (← parseHexNat s))
  | ["steps", st] => do
    let steps ← (splitList st).mapM parseStep
    let (qs, ins, outs) := runSteps steps [] []
    if ins.isEmpty || qs.isEmpty then none else
    pure (.steps qs (realSize (ins.map fun k => (k, sigPh)) outs))
  | ["txsweep", main, deps] => do
    let deps ← (splitList deps).mapM parseDep
    if deps.isEmpty then none else
    pure (.flow (sweepEst deps.length) (sweepReal (← parseOptSig main) deps))
  | ["txredeem", sig, ch, outs] => do
    let outs ← (splitList outs).mapM parseOut
    if outs.isEmpty then none else
    pure (.flow (redeemEst outs) (redeemReal (← sig.toNat?) (ch = "1") outs))
  | ["txmove", sig, n] => do
    let n ← n.toNat?
    pure (.flow (moveEst n) (moveReal (← sig.toNat?) n))
  | ["txmsweep", moved, main] => do
    let main ← parseOptSig main
    pure (.flow (msweepEst main.isSome) (msweepReal (← moved.toNat?) main))
  | _ => none

def model (line : String) : String :=
  match parseOp line with
  | some (.size ins outs) =>
    "est=" ++ showOpt (estimate (ins.map (·.1)) outs) ++ " real=" ++ showOpt (realSize ins outs)
  | some (.der r s) => s!"len={derSigLen r s}"
  | some (.flow e r) => s!"est={e} real={r}"
  | some (.steps qs r) => "q=" ++ ",".intercalate (qs.map showOpt) ++ " real=" ++ showOpt r
  | none => "bad-op"

def parseOptNat (s : String) : Option (Option Nat) :=
  if s = "err" then some none else s.toNat?.map some

def monitor (op obs : String) : String :=
  match parseOp op with
  | none => "FAIL bad-op"
  | some (.size ins _) =>
    match splitWs obs with
    | e :: r :: notes =>
      if e.startsWith "est=" && r.startsWith "real=" then
        match parseOptNat (e.drop 4).toString, parseOptNat (r.drop 5).toString with
        | some est, some real =>
          if !holds ins est real then "FAIL estimate-undershoots-real-size"
          else if notes.any (·.startsWith "siglen[") then
            -- the builder emitted a signature whose length is not the one btcec.Serialize gives
            -- (e.g. a 73-byte high-S encoding): longer than the placeholder can be
            "FAIL signature-in-transaction-longer-than-serialize-model"
          else if notes.isEmpty then "ok" else "FAIL vsize-recomputation-differs"
        | _, _ => "FAIL unparsable-observation"
      else "FAIL unparsable-observation"
    | _ => "FAIL unparsable-observation"
  | some (.steps _ _) =>
    -- model independent: the LAST query describes the final shape, whose real transaction
    -- (maximal signatures) was built and measured by the harness
    match splitWs obs with
    | [q, r] =>
      if q.startsWith "q=" && r.startsWith "real=" then
        match ((q.drop 2).toString.splitOn ",").getLast?, parseOptNat (r.drop 5).toString with
        | some l, some real =>
          match parseOptNat l, real with
          | some (some e), some rv =>
            if rv ≤ e then "ok" else "FAIL stepwise-estimate-undershoots-real-size"
          | some none, none => "ok"
          | some none, some _ => "FAIL estimator-error-for-buildable-transaction"
          | some (some _), none => "ok"
          | none, _ => "FAIL unparsable-observation"
        | _, _ => "FAIL unparsable-observation"
      else "FAIL unparsable-observation"
    | _ => "FAIL unparsable-observation"
  | some (.flow _ _) =>
    match splitWs obs with
    | [e, r] =>
      if e.startsWith "est=" && r.startsWith "real=" then
        match (e.drop 4).toString.toNat?, (r.drop 5).toString.toNat? with
        | some est, some real => if real ≤ est then "ok" else "FAIL fee-estimate-undershoots-assembled-transaction"
        | _, _ => "FAIL estimator-or-builder-error"
      else "FAIL unparsable-observation"
    | _ => "FAIL unparsable-observation"
  | some (.der r s) =>
    if obs.startsWith "len=" then
      match (obs.drop 4).toString.toNat? with
      | some n =>
        if r = 0 ∨ s = 0 ∨ curveN ≤ r ∨ curveN ≤ s then "ok"   -- not a signature
        else if n ≤ sigPh then "ok" else "FAIL signature-longer-than-placeholder"
      | none => "FAIL unparsable-observation"
    else "FAIL unparsable-observation"

def main (args : List String) : IO UInt32 := driverMain model monitor args
