import KeepVerif.DriverLib
import KeepVerif.Model.C40
import KeepVerif.Model.C40Keccak
open KeepVerif
open KeepVerif.C40

/-- the hash parameter of the model, instantiated for the driver -/
def K (b : Bytes) : Bytes := Keccak.keccak256 b

structure Supporter where
  idx : Nat
  real : Bool
  sig : Bytes

def synthSig (idx len seed : Nat) : Bytes :=
  (List.range len).map (fun j => UInt8.ofNat ((7 * idx + 13 * seed + 3 * j) % 256))

/-- stand-in bytes for a signature made by the real signer (the model never looks inside). -/
def realPlaceholder (idx : Nat) : Bytes := List.replicate 65 (UInt8.ofNat idx)

def parseSupporter (t : String) : Option Supporter :=
  match t.splitOn ":" with
  | [i, "r"] => do
    let idx ← i.toNat?
    pure { idx, real := true, sig := realPlaceholder idx }
  | [i, l, s] => do
    let idx ← i.toNat?
    let len ← (l.drop 1).toString.toNat?
    let seed ← s.toNat?
    if l.startsWith "s" then pure { idx, real := false, sig := synthSig idx len seed } else none
  | _ => none

def parseSupporters (s : String) : Option (List Supporter) := (splitList s).mapM parseSupporter

def supName (s : Supporter) : String := (if s.real then "R" else "S") ++ toString s.idx

def hexOrDash (b : Bytes) : String := showHex b

def parseBool01 (s : String) : Option Bool :=
  if s = "1" then some true else if s = "0" then some false else none

/-- signature tokens and predicted recovery flags, exactly as the harness derives them -/
def describeSigs (sigBytes : Bytes) (signers : List Nat) (sups : List Supporter) (nMembers : Nat) :
    String × String :=
  if sigBytes.length % 65 ≠ 0 ∨ sigBytes.length / 65 ≠ signers.length then
    ("raw:" ++ hexOrDash sigBytes, "-")
  else
    let toks := (signers.zipIdx).map (fun (idx, i) =>
      let chunk := slice sigBytes (65 * i) 65
      match sups.find? (fun (s : Supporter) => s.idx == idx) with
      | some s => if s.sig == chunk then supName s else "x" ++ showHex chunk
      | none => "x" ++ showHex chunk)
    let recs := signers.map (fun idx =>
      match sups.find? (fun (s : Supporter) => s.idx == idx) with
      | some s => if s.real && decide (1 ≤ idx ∧ idx ≤ nMembers) then "1" else "0"
      | none => "0")
    (showList toks, showList recs)

def errString : Err → String
  | .key => "err:key"
  | .sigSize m l => s!"err:sigsize:{m}:{l}"
  | .indexPanic k n => s!"PANIC runtime error: index out of range [{k}] with length {n}"
  | .pack => "err:membershash"
  | .keyLen => "err:hash"

structure DkgOp where
  inp : DkgInput
  sups : List Supporter

def parseDkg : List String → Option DkgOp
  | [c, sb, sub, x, y, opr, mis, sups, ids] => do
    let chainId ← parseHexNat c
    let startBlock ← sb.toNat?
    let submitter ← sub.toNat?
    let x ← parseHexNat x
    let y ← parseHexNat y
    let operating ← parseNats opr
    let misbehaved ← parseNats mis
    let sups ← parseSupporters sups
    let ids ← parseNats ids
    pure { inp := { chainId, startBlock, submitter, x, y, operating, misbehaved,
                    sigs := sups.map (fun s => (s.idx, s.sig)), ids }, sups }
  | _ => none

def parseMark (t : String) : Option (Bool × Nat) := do
  let idx ← (t.drop 1).toString.toNat?
  if t.startsWith "i" then pure (false, idx) else if t.startsWith "d" then pure (true, idx) else none

/-- `dkgr`: the operating / misbehaved lists are derived from the marks the way the client does -/
def parseDkgR : List String → Option DkgOp
  | [c, sb, sub, x, y, marks, sups, ids] => do
    let chainId ← parseHexNat c
    let startBlock ← sb.toNat?
    let submitter ← sub.toNat?
    let x ← parseHexNat x
    let y ← parseHexNat y
    let marks ← (splitList marks).mapM parseMark
    let sups ← parseSupporters sups
    let ids ← parseNats ids
    let st := applyMarks ids.length marks
    pure { inp := { chainId, startBlock, submitter, x, y, operating := groupOperating ids.length st,
                    misbehaved := resultMisbehaved st,
                    sigs := sups.map (fun s => (s.idx, s.sig)), ids }, sups }
  | _ => none

structure ClaimOp where
  inp : ClaimInput
  sups : List Supporter

def parseInact : List String → Option ClaimOp
  | [c, n, x, y, ina, hb, wid, sups, ids] => do
    let chainId ← parseHexNat c
    let nonce ← parseHexNat n
    let x ← parseHexNat x
    let y ← parseHexNat y
    let inactive ← parseNats ina
    let heartbeatFailed ← parseBool01 hb
    let walletID ← parseHex wid
    let sups ← parseSupporters sups
    let ids ← parseNats ids
    if walletID.length ≠ 32 then none else
    pure { inp := { chainId, nonce, x, y, inactive, heartbeatFailed, walletID,
                    sigs := sups.map (fun s => (s.idx, s.sig)), ids }, sups }
  | _ => none

def modelDkg (o : DkgOp) : String :=
  let inp := o.inp
  match dkgSigPreimageClient inp.chainId inp.x inp.y inp.misbehaved inp.startBlock with
  | .error _ => "err:hash"
  | .ok pre =>
    let h := K pre
    match walletIdClient K inp.x inp.y with
    | .error e => errString e
    | .ok wid =>
      match assembleDKGResult K inp with
      | .error e => errString e
      | .ok r =>
        let (toks, recs) := describeSigs r.signatures r.signing o.sups r.members.length
        s!"ok sub={r.submitter} key={hexOrDash r.groupPubKey} mis={showList r.misbehaved} signers={showList r.signing} sigs={toks} members={showList r.members} mh={showHex r.membersHash} h={showHex h} rec={recs} wid={showHex wid}"

def modelInact (o : ClaimOp) : String :=
  let inp := o.inp
  let inactive := claimInactive inp.inactive
  match claimPreimageClient inp.chainId inp.nonce inp.x inp.y inactive inp.heartbeatFailed with
  | .error _ => "err:hash"
  | .ok pre =>
    let h := K pre
    match assembleClaim inp with
    | .error e => errString e
    | .ok c =>
      let (toks, recs) := describeSigs c.signatures c.signing o.sups inp.ids.length
      let hb := if c.heartbeatFailed then "1" else "0"
      s!"ok wid={showHex c.walletID} inactive={showList c.inactive} hb={hb} signers={showList c.signing} sigs={toks} h={showHex h} rec={recs}"

def model (line : String) : String :=
  match splitWs line with
  | "dkg" :: rest => match parseDkg rest with
    | some o => modelDkg o
    | none => "bad-op"
  | "dkgr" :: rest => match parseDkgR rest with
    | some o => modelDkg o
    | none => "bad-op"
  | "inact" :: rest => match parseInact rest with
    | some o => modelInact o
    | none => "bad-op"
  | _ => "bad-op"

/-! ### monitor: parse what the implementation returned -/

def fieldsOf (toks : List String) : List (String × String) :=
  toks.filterMap (fun t => match t.splitOn "=" with
    | [k, v] => some (k, v)
    | _ => none)

def sigBytesOf (tok : String) (sups : List Supporter) : Option Bytes :=
  if tok.startsWith "raw:" then parseHex (tok.drop 4).toString
  else (splitList tok).foldlM (fun acc t =>
    if t.startsWith "x" then (parseHex (t.drop 1).toString).map (acc ++ ·)
    else match sups.find? (fun (s : Supporter) => supName s == t) with
      | some s => some (acc ++ s.sig)
      | none => none) []

def parseFlags (s : String) : Option (List Bool) := (splitList s).mapM parseBool01

def realIdx (sups : List Supporter) (n : Nat) : List Nat :=
  (sups.filter (fun s => s.real && decide (1 ≤ s.idx ∧ s.idx ≤ n))).map (·.idx)

def parseDkgObs (obs : String) (sups : List Supporter) : Option DkgObs :=
  match splitWs obs with
  | "ok" :: rest => do
    let f := fieldsOf rest
    let submitter ← (← f.lookup "sub").toNat?
    let groupPubKey ← parseHex (← f.lookup "key")
    let misbehaved ← parseNats (← f.lookup "mis")
    let signing ← parseNats (← f.lookup "signers")
    let signatures ← sigBytesOf (← f.lookup "sigs") sups
    let members ← parseNats (← f.lookup "members")
    let membersHash ← parseHex (← f.lookup "mh")
    let hash ← parseHex (← f.lookup "h")
    let recovered ← parseFlags (← f.lookup "rec")
    let walletId ← parseHex (← f.lookup "wid")
    pure { res := { submitter, groupPubKey, misbehaved, signatures, signing, members, membersHash },
           hash, recovered, walletId }
  | _ => none

def parseClaimObs (obs : String) (sups : List Supporter) : Option ClaimObs :=
  match splitWs obs with
  | "ok" :: rest => do
    let f := fieldsOf rest
    let walletID ← parseHex (← f.lookup "wid")
    let inactive ← parseNats (← f.lookup "inactive")
    let heartbeatFailed ← parseBool01 (← f.lookup "hb")
    let signing ← parseNats (← f.lookup "signers")
    let signatures ← sigBytesOf (← f.lookup "sigs") sups
    let hash ← parseHex (← f.lookup "h")
    let recovered ← parseFlags (← f.lookup "rec")
    pure { claim := { walletID, inactive, heartbeatFailed, signatures, signing }, hash, recovered }
  | _ => none

def isFailureObs (obs : String) : Bool :=
  obs.startsWith "err:" || obs.startsWith "PANIC" || obs = "HANG"

def monitor (op obs : String) : String :=
  match splitWs op with
  | kind :: rest =>
   if kind = "dkg" || kind = "dkgr" then
    match (if kind = "dkg" then parseDkg rest else parseDkgR rest) with
    | none => "FAIL bad-op"
    | some o =>
      let real := realIdx o.sups o.inp.ids.length
      if isFailureObs obs then
        if holdsDkg K o.inp real none then "ok" else "FAIL submittable-result-not-assembled"
      else match parseDkgObs obs o.sups with
        | none => "FAIL unparsable-observation"
        | some ob =>
          if holdsDkg K o.inp real (some ob) then "ok"
          else
            let why :=
              if dkgInDomain o.inp && validateMembersHash K ob.res != some true then "members-hash-mismatch"
              else if dkgInDomain o.inp &&
                (dkgSigPreimageContract o.inp.chainId ob.res o.inp.startBlock).map K != some ob.hash then
                "signed-hash-differs-from-contract"
              else if dkgInDomain o.inp && walletIdContract K ob.res.groupPubKey != ob.walletId then
                "wallet-id-mismatch"
              else if dkgSubmittable o.inp && validateFieldsGen ob.res != "" then
                "validateFields:" ++ (validateFieldsGen ob.res).replace " " "_"
              else "signature-recovery-or-fields"
            "FAIL " ++ why
   else if kind = "inact" then
    match parseInact rest with
    | none => "FAIL bad-op"
    | some o =>
      let real := realIdx o.sups o.inp.ids.length
      if isFailureObs obs then
        if holdsClaim K o.inp real none then "ok" else "FAIL submittable-claim-not-assembled"
      else match parseClaimObs obs o.sups with
        | none => "FAIL unparsable-observation"
        | some ob =>
          if holdsClaim K o.inp real (some ob) then "ok"
          else
            let why :=
              if claimInDomain o.inp &&
                (claimPreimageContract o.inp.chainId o.inp.nonce (marshalCropped o.inp.x o.inp.y) ob.claim).map K
                  != some ob.hash then "signed-hash-differs-from-contract"
              else if claimSubmittable o.inp && verifyClaimStaticGen ob.claim o.inp.ids.length != "" then
                "verifyClaim:" ++ (verifyClaimStaticGen ob.claim o.inp.ids.length).replace " " "_"
              else "signature-recovery-or-fields"
            "FAIL " ++ why
   else "FAIL bad-op"
  | _ => "FAIL bad-op"

def main (args : List String) : IO UInt32 := driverMain model monitor args
