import KeepVerif.DriverLib
import KeepVerif.Model.C27
open KeepVerif KeepVerif.Script KeepVerif.C27

/-- digest = exactly the arguments of the signature hash (ideal hash: equal iff arguments equal) -/
abbrev Dg := Nat × Bytes × UInt8 × Bool × Int

structure InTok where
  spec : InSpec
  label : String

structure SigTok where
  signer : Nat
  claimed : Nat
  digest : Nat
  flavor : String

structure Case where
  pks : List Bytes
  pkhs : List Bytes
  ins : List InTok
  sigs : List SigTok
  tamper : String
  mutIdx : Nat
  h160 : List (Bytes × Bytes)
  sha : List (Bytes × Bytes)

def parseTable (s : String) : Option (List (Bytes × Bytes)) :=
  (splitList s).mapM fun e =>
    match e.splitOn ":" with
    | [a, b] => do pure ((← parseHex a), (← parseHex b))
    | _ => none

def parseCase (line : String) : Option Case :=
  match splitWs line with
  | ["tx", keys, ins, sigs, tam, t1, t2, _flow] => do
    let ks ← (splitList keys).mapM fun e =>
      match e.splitOn ":" with
      | [_, pk, pkh] => do pure ((← parseHex pk), (← parseHex pkh))
      | _ => none
    let ins ← (splitList ins).mapM fun e =>
      match e.splitOn ":" with
      | [add, lock, value, redeem, label, _grp] => do
        let a ← (if add = "pkh" then some AddKind.pkh else if add = "sh" then some AddKind.sh else none)
        let spec : InSpec := ⟨a, (← parseHex lock), (← value.toInt?), (← parseHex redeem)⟩
        pure (InTok.mk spec label)
      | _ => none
    let sigs ← (splitList sigs).mapM fun e =>
      match e.splitOn ":" with
      | [a, b, c, fl] => do pure (SigTok.mk (← a.toNat?) (← b.toNat?) (← c.toNat?) fl)
      | _ => none
    let (m, mi) ← (match tam.splitOn ":" with
      | ["none"] => some ("none", 0)
      | [m, i] => i.toNat?.map (fun n => (m, n))
      | _ => none)
    some ⟨ks.map (·.1), ks.map (·.2), ins, sigs, m, mi, (← parseTable t1), (← parseTable t2)⟩
  | _ => none

def lookup (tab : List (Bytes × Bytes)) (x : Bytes) : Bytes :=
  match tab.find? (fun e => e.1 == x) with
  | some e => e.2
  | none => []

/-- signature `k` is named by the two bytes `[0x30, k]` (its DER encoding is never inspected by
    the model, only handed to `sigEnc` / `verify`) -/
def sigName (k : Nat) : Bytes := [0x30, UInt8.ofNat k]

/-- ideal ECDSA: signature `k` verifies for (pk, d) iff it was made by the key with public key pk
    over digest d and was not tampered with; the digests signed are the builder's own -/
def txCtx (c : Case) (digests : List Dg) : TxCtx Dg :=
  { hash160 := fun x => lookup (c.pks.zip c.pkhs ++ c.h160) x
    sha256 := fun x => lookup c.sha x
    sigEnc := fun _ => none
    parsePk := fun _ => true
    sighash := fun i code ht w amt => (i, code, ht, w, amt)
    verify := fun pk der d =>
      match der with
      | [_, k] =>
        match c.sigs[k.toNat]? with
        | some s =>
          s.flavor != "bad" && (c.pks[s.signer]? == some pk) && (digests[s.digest]? == some d)
        | none => false
      | _ => false }

def showItem (b : Bytes) (sigFull : Bytes) : String := if b == sigFull then "sig" else showHex b

def joinDot (xs : List String) : String := if xs.isEmpty then "-" else ".".intercalate xs

/-- scriptSig as `opcode-prefix:data` pushes (the signature push is printed as `sig`) -/
def showScriptSig (items : List Bytes) (sigFull : Bytes) : String :=
  joinDot (items.map fun it =>
    if it == sigFull then "sig"
    else
      let enc := pushData it
      showHex (enc.take (enc.length - it.length)) ++ ":" ++ showHex it)

def applyMut (c : Case) (i : Nat) (ssItems : List Bytes) (wit : List Bytes) (amount : Int) :
    List Bytes × List Bytes × Int :=
  if c.tamper = "none" || c.mutIdx != i then (ssItems, wit, amount)
  else
    let other := c.pks.getD 1 []
    if c.tamper = "amt" then (ssItems, wit, amount + 1)
    else if c.tamper = "pk" then
      if wit.length ≥ 2 then (ssItems, wit.set 1 other, amount)
      else if ssItems.length ≥ 2 then (ssItems.set 1 other, wit, amount)
      else (ssItems, wit, amount)
    else if c.tamper = "dropredeem" then
      if wit.length = 3 then (ssItems, wit.take 2, amount)
      else if ssItems.length = 3 then (ssItems.take 2, wit, amount)
      else (ssItems, wit, amount)
    else if c.tamper = "extra" then
      if wit.length > 0 then (ssItems, [7, 7] :: wit, amount) else ([7, 7] :: ssItems, wit, amount)
    else (ssItems, wit, amount)

def model (line : String) : String :=
  match parseCase line with
  | none => "bad-op"
  | some c =>
    match addInputs 0 (c.ins.map (·.spec)) with
    | .error e => e.name
    | .ok bs =>
      -- digests with the ideal hash do not depend on the signatures: compute them first
      let t0 := txCtx c []
      match computeHashes t0 0 bs with
      | .error e => e.name
      | .ok hs =>
        let t := txCtx c hs
        let sigs : List SigC := (List.range c.sigs.length).map fun k =>
          ⟨c.pks.getD ((c.sigs.getD k ⟨0, 0, 0, ""⟩).claimed) [], sigName k⟩
        match addSignatures t bs hs sigs with
        | .error e => e.name
        | .ok us =>
          let parts := (List.range us.length).map fun i =>
            let spec := (c.ins.getD i ⟨⟨.pkh, [], 0, []⟩, ""⟩).spec
            let b := bs.getD i ⟨false, [], 0, [], []⟩
            let s := sigs.getD i ⟨[], []⟩
            let sigFull := s.der ++ [sigHashAll]
            -- items of the signature script as the builder pushed them
            let ssItems : List Bytes :=
              if b.witness then []
              else [sigFull, s.pk] ++ (if b.preScriptSig.length > 0 then [b.preScriptSig] else [])
            let u := us.getD i ([], [])
            let (ssItems', wit', amount') := applyMut c i ssItems u.2 spec.value
            let ss' := if c.tamper = "none" || c.mutIdx != i then u.1 else ssItems'.flatMap pushData
            let r := verifyInput (t.at i amount') ss' wit' spec.utxoScript
            (r, s!"in{i}=" ++ showScriptSig ssItems' sigFull ++ "/" ++
              joinDot (wit'.map (showItem · sigFull)) ++ "/" ++ showResult r)
          if parts.any (fun p => match p.1 with | .error .unsupported => true | _ => false) then "SKIP"
          else " ".intercalate (parts.map (·.2))

/-- per input verdicts of an observation `in0=…/…/verdict …` -/
def verdictsOf (obs : String) : Option (List String) :=
  (splitWs obs).mapM fun p =>
    match p.splitOn "/" with
    | [_, _, v] => some v
    | _ => none

def monitor (op obs : String) : String :=
  match parseCase op with
  | none => "FAIL bad-op"
  | some c =>
    let n := c.ins.length
    let labels := c.ins.map (·.label)
    let isErr := obs.startsWith "err:"
    let sigOk := (List.range c.sigs.length).map fun k =>
      let s := c.sigs.getD k ⟨0, 0, 0, ""⟩
      s.signer == s.claimed && s.digest == k && s.flavor != "bad"
    if labels.contains "m" then
      if obs.startsWith "err:not-" then "ok" else "FAIL input-of-wrong-class-accepted-by-builder"
    else if n = 0 then (if isErr then "ok" else "FAIL transaction-without-inputs-signed")
    else if c.sigs.length ≠ n then (if isErr then "ok" else "FAIL wrong-signature-count-accepted")
    else if !sigOk.all id then
      -- a signature that does not match its input's hash: no transaction may be produced
      if isErr then "ok" else "FAIL invalid-signature-not-rejected"
    else
      let walletSigned := c.sigs.all (fun s => s.claimed == 0)
      if isErr then
        if labels.all (· == "w") then "FAIL valid-signatures-rejected:" ++ obs else "ok"
      else
        match verdictsOf obs with
        | none => "FAIL unparsable-observation"
        | some vs =>
          if vs.length ≠ n then "FAIL input-count" else
          let bad := (List.range n).filter fun i =>
            let v := vs.getD i ""
            let lab := labels.getD i ""
            let spec := (c.ins.getD i ⟨⟨.pkh, [], 0, []⟩, ""⟩).spec
            let mutHere := c.tamper != "none" && c.mutIdx == i
            if lab != "w" || !walletSigned then false
            else if !mutHere then v != "accept"
            else
              -- tampered input: must be rejected when the tampering is effective
              let wit := isWitnessProgramBytes spec.utxoScript
              let effective := c.tamper == "pk" || c.tamper == "extra" ||
                (c.tamper == "amt" && wit) || (c.tamper == "dropredeem" && spec.add == .sh)
              if effective then v == "accept" else v != "accept"
          match bad with
          | [] => "ok"
          | i :: _ => s!"FAIL input-{i}-{vs.getD i ""}"

def main (args : List String) : IO UInt32 := driverMain model monitor args
