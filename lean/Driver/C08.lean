import KeepVerif.DriverLib
import KeepVerif.Model.C08
open KeepVerif
open KeepVerif.C07 (toKey toIndex Msg Ev memberGroup received)
open KeepVerif.C08

namespace DrvC08

def hexBytes (s : String) : Option (List Nat) := (parseHex s).map (·.map UInt8.toNat)

def field (obs : List String) (name : String) : Option String :=
  obs.findSome? fun t =>
    if t.startsWith (name ++ "=") then some (t.drop (name.length + 1)).toString else none

def parseTuples (s : String) : Option (List (List Nat)) :=
  (splitList s).mapM fun t => (t.splitOn ":").mapM String.toNat?

def subsetsOf (s : String) : Option (List (List Nat)) :=
  (s.splitOn "|").mapM fun t => (if t = "-" then some [] else (t.splitOn ".").mapM String.toNat?)

def parseMsg (seq : Nat) (s : String) : Option Msg :=
  match (s.splitOn ".").mapM String.toNat? with
  | some [k, sender, op, q] => some ⟨k, sender, op, q, seq⟩
  | _ => none

def parseEvents (s : String) : Option (List Ev) :=
  let rec go (seq : Nat) : List String → Option (List Ev)
    | [] => some []
    | t :: ts =>
      if t = ">" then (go (seq + 1) ts).map (Ev.next :: ·)
      else do
        let m ← parseMsg seq t
        let rest ← go (seq + 1) ts
        pure (Ev.recv m :: rest)
  go 0 (splitList s)

def showRecvd (l : List Msg) : String :=
  showList (l.map fun m => s!"{m.sender}.{m.seq}")

def parsePairs (s : String) : Option (List (Nat × Nat)) :=
  (splitList s).mapM fun t =>
    match (t.splitOn ".").mapM String.toNat? with
    | some [a, b] => some (a, b)
    | _ => none

def model (line : String) : String :=
  match splitWs line with
  | ["final", n, quorum, sel, operating, seed] =>
    match n.toNat?, quorum.toNat?, parseNats sel, parseNats operating, seed.toNat? with
    | some n, some quorum, some sel, some operating, some seed =>
      match finalSigningGroup n quorum sel operating with
      | none => "err:invalid"
      | some (ops, idx) =>
        let ks := storedKeys seed operating
        let parts := idx.map fun (m, f) =>
          s!"{m}:{f}:{toIndex seed (sKey ks f)}:{sIndex ks (toKey seed m)}"
        s!"ops={showList ops} map={showList parts}"
    | _, _, _, _, _ => "bad-op"
  | ["sconv", keys, idx, key] =>
    match parseNats keys, idx.toNat?, key.toNat? with
    | some keys, some idx, some key =>
      s!"k={sKey keys idx} rt={sIndex keys (sKey keys idx)} i={sIndex keys key}"
    | _, _, _ => "bad-op"
  | ["sig", r, s, rec] =>
    match hexBytes r, hexBytes s, hexBytes rec with
    | some r, some s, some rec =>
      let sg := newSignature r s rec
      s!"r={sg.r} s={sg.s} v={sg.recoveryID}"
    | _, _, _ => "bad-op"
  | ["srecv", n, self, excl, seats, sess, evs] =>
    match n.toNat?, self.toNat?, parseNats excl, parseNats seats, sess.toNat?, parseEvents evs with
    | some n, some self, some excl, some seats, some sess, some evs =>
      let g := memberGroup n self excl
      let s := sRun self sess g seats evs
      let rs := (List.range 10).map fun k => s!"r{k}={showRecvd (received s.hist k)}"
      s!"st={s.idx} can={if sCanTransition s.idx g s.hist then 1 else 0} n={s.hist.length} " ++ " ".intercalate rs
    | _, _, _, _, _, _ => "bad-op"
  | ["wsign", n, _t, excl, _msg] =>
    match n.toNat?, parseNats excl with
    | some n, some excl =>
      let operating := (List.range' 1 n).filter (fun m => !excl.contains m)
      let fin := operating.map fun m => s!"{m}:{finalIndex operating m}"
      s!"dkg=ok final={showList fin} sig=ok"
    | _, _ => "bad-op"
  | ["sign", n, t, excl, subsets, _msg] =>
    match n.toNat?, t.toNat?, parseNats excl, subsetsOf subsets with
    | some n, some _t, some excl, some subs =>
      let operating := (List.range' 1 n).filter (fun m => !excl.contains m)
      let fin := operating.map fun m => s!"{m}:{finalIndex operating m}"
      s!"dkg=ok final={showList fin} ks=ok sigs={"|".intercalate (subs.map fun _ => "ok")}"
    | _, _, _, _ => "bad-op"
  | _ => "bad-op"

def monitor (op obs : String) : String :=
  let o := splitWs obs
  if obs.startsWith "PANIC" then "FAIL implementation-panicked" else
  if obs = "HANG" then "FAIL implementation-hung" else
  match splitWs op with
  | ["final", _n, _quorum, sel, operating, _seed] =>
    if obs = "err:invalid" then "ok" else
    match parseNats sel, parseNats operating, (field o "ops").bind parseNats, (field o "map").bind parseTuples with
    | some sel, some operating, some ops, some tuples =>
      match tuples.mapM (fun t => match t with | [m, f, r, b] => some (m, f, r, b) | _ => none) with
      | some entries =>
        if holdsFinal sel operating ops entries then "ok" else "FAIL final-index-does-not-match-dkg-identity"
      | none => "FAIL unparsable-observation"
    | _, _, _, _ => "FAIL unparsable-observation"
  | ["sconv", keys, idx, _key] =>
    match parseNats keys, idx.toNat?, (field o "rt").bind String.toNat?, (field o "k").bind String.toNat? with
    | some keys, some idx, some rt, some k =>
      if rt == idx && keys[idx - 1]? == some k then "ok" else "FAIL signing-party-roundtrip"
    | _, _, _, _ => "FAIL unparsable-observation"
  | ["sig", r, s, _rec] =>
    match hexBytes r, hexBytes s, (field o "r").bind String.toNat?, (field o "s").bind String.toNat? with
    | some r, some s, some r', some s' =>
      if natOfBytes r == r' && natOfBytes s == s' then "ok" else "FAIL signature-fields"
    | _, _, _, _ => "FAIL unparsable-observation"
  | ["srecv", n, self, excl, seats, sess, evs] =>
    match n.toNat?, self.toNat?, parseNats excl, parseNats seats, sess.toNat?, parseEvents evs with
    | some n, some self, some excl, some seats, some sess, some evs =>
      let lists := (List.range 10).mapM fun k => (field o s!"r{k}").bind parsePairs
      match lists, (field o "st").bind String.toNat?, field o "can" with
      | some lists, some st, some can =>
        if holdsSrecv self sess (memberGroup n self excl) seats evs st (can == "1") lists then "ok"
        else "FAIL signing-unadmitted-or-duplicate-message-or-wrong-CanTransition"
      | _, _, _ => "FAIL unparsable-observation"
    | _, _, _, _, _, _ => "FAIL bad-op"
  | ["wsign", _n, _t, _excl, _msg] =>
    match field o "dkg", field o "sig" with
    | some d, some sg =>
      if holdsWsign ⟨d == "ok", sg == "ok"⟩ then "ok"
      else if d ≠ "ok" then "FAIL dkg-failed"
      else "FAIL wallet-signing-with-stored-indexes:" ++ sg
    | _, _ => "FAIL unparsable-observation"
  | ["sign", _n, _t, _excl, _subsets, _msg] =>
    match field o "dkg", field o "ks", field o "sigs" with
    | some d, some ks, some sigs =>
      if holdsSign ⟨d == "ok", ks == "ok", (sigs.splitOn "|").map (· == "ok")⟩ then "ok"
      else if d ≠ "ok" then "FAIL dkg-failed"
      else if ks ≠ "ok" then "FAIL stored-index-does-not-map-to-dkg-party"
      else "FAIL quorum-did-not-sign-validly:" ++ sigs
    | _, _, _ => "FAIL unparsable-observation"
  | _ => "FAIL bad-op"

end DrvC08

def main (args : List String) : IO UInt32 := driverMain DrvC08.model DrvC08.monitor args
