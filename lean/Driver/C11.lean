import KeepVerif.DriverLib
import KeepVerif.Model.C11
open KeepVerif KeepVerif.C09 KeepVerif.C10 KeepVerif.C11

def parseStream (s : String) : Option (List Nat) :=
  if s = "-" || s = "" then some [] else (s.splitOn ".").mapM String.toNat?

def parseDots (s : String) : Option (List Nat) :=
  if s = "-" || s = "" then some [] else (s.splitOn ".").mapM String.toNat?

def showDots (xs : List Nat) : String :=
  if xs.isEmpty then "-" else ".".intercalate (xs.map toString)

def parseFn (c : Char) : Option Fn :=
  if c = 'E' then some .attemptErr else if c = 'S' then some .signalErr
  else if c = 'U' then some .waitDoneErr else if c = 'K' then some .success else none

def parseSStep (e : String) : Option SStep :=
  match e.splitOn "/" with
  | [cur, xy, ready] =>
    match xy.toList, parseDots ready with
    | [x, y], some r => do
      let fn ← parseFn y
      let cur ← (if cur = "e" then some none else cur.toNat?.map some)
      if x ≠ 'W' && x ≠ 'A' && x ≠ '-' then none
      pure ⟨cur, x = 'W', x = 'A', r, fn⟩
    | _, _ => none
  | _ => none

def parseDStep (e : String) : Option DStep :=
  match e.splitOn "/" with
  | [xy, ready] =>
    match xy.toList, parseDots ready with
    | [x, y], some r =>
      if (x ≠ 'W' && x ≠ 'A' && x ≠ '-') || (y ≠ 'E' && y ≠ 'K') then none
      else some ⟨x = 'W', x = 'A', r, y = 'E'⟩
    | _, _ => none
  | _ => none

def isAsync : Ev → Option Nat
  | .asyncAnn _ b => some b
  | .asyncTimeout _ b => some b
  | _ => none

def showEv : Ev → Option String
  | .cur _ => some "c"
  | .wait _ b => some s!"w{b}"
  | .announce n _ => some s!"a{n}"
  | .listen n to inc => some s!"l{n}:{to}:{showDots inc}"
  | .attempt n st to ex _ => some s!"f{n}:{st}:{to}:{showDots ex}"
  | .dattempt n st to ex _ => some s!"f{n}:{st}:{to}:{showDots ex}"
  | .signal n => some s!"s{n}"
  | .waitDone _ => some "d"
  | .retOk _ to => some s!"=ok:{to}"
  | .retCtx => some "=ctx"
  | .retLimit => some "=limit"
  | .retWaitErr => some "=waiterr"
  | .retSelErr => some "=selerr"
  | .retPanic => some "=panic"
  | _ => none

def sortNats (xs : List Nat) : List Nat := (xs.toArray.qsort (· < ·)).toList

def showTrace (evs : List Ev) : String :=
  " ".intercalate (evs.filterMap showEv) ++ " ~ " ++ showList (sortNats (evs.filterMap isAsync))

structure Case where
  c : Consts
  s0 : Nat
  evs : List Ev
  /-- per attempt: the block the member observed (signing loop) -/
  seen : List (Option Nat)

def parseCase (line : String) : Option Case :=
  match splitWs line with
  | ["sloop", n, thr, member, s0, script] => do
    let n ← n.toNat?
    let thr ← thr.toNat?
    let member ← member.toNat?
    let s0 ← s0.toNat?
    let sc ← (splitList script).mapM parseSStep
    if sc.any (fun s => s.ready.length > thr) || member < 1 || member > n then none
    -- one seat per operator, at most `thr` ready members: the selection has no choice
    let sel := fun (_ : Nat) (ready : List Nat) =>
      signingSelection (fun k => List.range k) (fun k => List.range k) (List.range n) thr ready
    pure ⟨signingConsts, s0, sgRun signingConsts sel n thr member s0 sc, sc.map (·.cur)⟩
  | ["sloopx", ops, thr, member, s0, _msg, script, streams] => do
    let ops ← parseNats ops
    let thr ← thr.toNat?
    let member ← member.toNat?
    let s0 ← s0.toNat?
    let sc ← (splitList script).mapM parseSStep
    let sts ← (streams.splitOn "|").mapM parseStream
    if member < 1 || member > ops.length then none
    -- attempt n: operator shuffle seeded attemptSeed+n-1, surplus trimming seeded attemptSeed+n
    let sel := fun (k : Nat) (ready : List Nat) =>
      signingSelection (goShuffle (sts.getD (k - 1) [])) (goShuffle (sts.getD k [])) ops thr ready
    pure ⟨signingConsts, s0, sgRun signingConsts sel ops.length thr member s0 sc, sc.map (·.cur)⟩
  | ["dloop", ops, q, member, s0, _seed, script, st] => do
    let ops ← parseNats ops
    let q ← q.toNat?
    let member ← member.toNat?
    let s0 ← s0.toNat?
    let st ← parseStream st
    let sc ← (splitList script).mapM parseDStep
    if sc.isEmpty || member < 1 || member > ops.length then none
    pure ⟨dkgConsts, s0, dkRun dkgConsts (goShuffle st) ops q member s0 sc, []⟩
  | _ => none

/-- `ann` ops test assumption A-ann against the real announcer (see harness/c11/announcer.go).
    Prediction: with a channel that honours the broadcast-channel contract (no handler call once the
    context is done) a call on an already cancelled context returns exactly the caller; if `k > 0`
    announcements already sit in the announcer's buffer, Go's `select` between the buffer and
    `ctx.Done()` does pick some of them in at least one of ≥ 50 repetitions (`SKIP` below that). -/
def annModel (line : String) : Option String :=
  match splitWs line with
  | ["ann", _n, _member, k, mode, reps] =>
    match k.toNat?, reps.toNat? with
    | some k, some reps =>
      if mode = "strict" || k = 0 then some "only-self:true wellformed:true"
      else if mode = "eager" then (if reps < 50 then some "SKIP" else some "only-self:false wellformed:true")
      else some "bad-op"
    | _, _ => some "bad-op"
  | _ => none

def annMonitor (op obs : String) : Option String :=
  match splitWs op with
  | ["ann", _n, _member, _k, mode, _reps] =>
    match splitWs obs with
    | [o, w] =>
      if w ≠ "wellformed:true" then some "FAIL announcer-result-not-wellformed"
      else if mode = "strict" && o ≠ "only-self:true" then
        some "FAIL announce-on-done-context-returned-more-than-the-caller"
      else some "ok"
    | _ => some ("FAIL " ++ obs)
  | _ => none

def model (line : String) : String :=
  match annModel line with
  | some r => r
  | none =>
  match parseCase line with
  | some cs => showTrace cs.evs
  | none => "bad-op"

/-! monitor: rebuild events from the observed tokens (the attempt number of `c`/`w` tokens is their
    running count) and evaluate `C11.holds` on them -/

def nat! (s : String) : Except String Nat :=
  match s.toNat? with
  | some n => pure n
  | none => throw "unparsable-observation"

def dots! (s : String) : Except String (List Nat) :=
  match parseDots s with
  | some l => pure l
  | none => throw "unparsable-observation"

def stepMsg := "attempt-number-out-of-step-with-loop-iteration"

def parseTokens (dkg : Bool) (seen : List (Option Nat)) : Nat → List String → Except String (List Ev)
  | _, [] => pure []
  | n, t :: rest =>
    let seenOf (k : Nat) : Option Nat := (seen.getD (k - 1) none)
    if t = "c" then (parseTokens dkg seen (n + 1) rest).map (Ev.cur (n + 1) :: ·)
    else if t = "d" then (parseTokens dkg seen n rest).map (Ev.waitDone n :: ·)
    else if t.startsWith "=" then
      match t.splitOn ":" with
      | ["=ok", to] => do let to ← nat! to; let r ← parseTokens dkg seen n rest; pure (Ev.retOk n to :: r)
      | _ => parseTokens dkg seen n rest
    else
      let body := (t.drop 1).toString
      let k := if dkg && t.startsWith "w" then n + 1 else n
      match t.front, body.splitOn ":" with
      | 'w', [b] => do
        let b ← nat! b; let r ← parseTokens dkg seen k rest; pure (Ev.wait k b :: r)
      | 'a', [a] => do
        let a ← nat! a; let r ← parseTokens dkg seen n rest
        if a ≠ n then throw stepMsg else pure (Ev.announce a (seenOf a) :: r)
      | 's', [a] => do
        let a ← nat! a; let r ← parseTokens dkg seen n rest
        if a ≠ n then throw stepMsg else pure (Ev.signal a :: r)
      | 'l', [a, to, inc] => do
        let a ← nat! a; let to ← nat! to; let inc ← dots! inc; let r ← parseTokens dkg seen n rest
        if a ≠ n then throw stepMsg else pure (Ev.listen a to inc :: r)
      | 'f', [a, st, to, ex] => do
        let a ← nat! a; let st ← nat! st; let to ← nat! to; let ex ← dots! ex
        let r ← parseTokens dkg seen n rest
        if a ≠ n then throw stepMsg else pure (Ev.attempt a st to ex (seenOf a) :: r)
      | _, _ => throw "unparsable-observation"

def monitor (op obs : String) : String :=
  match annMonitor op obs with
  | some r => r
  | none =>
  match parseCase op with
  | none => if obs = "bad-op" then "ok" else "FAIL bad-op"
  | some cs =>
    match obs.splitOn " ~ " with
    | [main, async] =>
      let dkg := (splitWs op).head? == some "dloop"
      match parseTokens dkg cs.seen 0 (splitWs main), parseNats async with
      | .error e, _ => "FAIL " ++ e
      | .ok evs, some blocks =>
        let nmax := evs.length + 1
        -- every block a side goroutine waited for is the announcement end or the timeout of an attempt
        let asyncOk := blocks.all fun b => (List.range (nmax + 1)).any fun i =>
          i ≥ 1 && (b == annEnd cs.c cs.s0 i || b == timeoutOf cs.c cs.s0 i)
        if !holds cs.c cs.s0 evs then "FAIL attempt-window-rule"
        else if !asyncOk then "FAIL stop-signal-block-not-a-window-boundary"
        else if !noOverlap cs.c evs then "FAIL attempt-starts-before-previous-timeout"
        else "ok"
      | .ok _, none => "FAIL unparsable-observation"
    | _ => "FAIL unparsable-observation " ++ obs

def main (args : List String) : IO UInt32 := driverMain model monitor args
