import KeepVerif.DriverLib
import KeepVerif.Model.C14
open KeepVerif
open KeepVerif.C14

def stripSuffixFlags (s : String) : String × Bool × Bool × Bool :=
  let cs := s.toList
  let flags := (cs.reverse.takeWhile (fun c => c = 'g' || c = 'e' || c = 'n'))
  let body := String.ofList (cs.take (cs.length - flags.length))
  (body, flags.contains 'g', flags.contains 'e', flags.contains 'n')

def parseSpec (s : String) : Option Spec :=
  let (body, g, e, n) := stripSuffixFlags s
  match body.splitOn "." with
  | [d, a] => do
    let d ← d.toNat?
    let a ← a.toNat?
    pure { delay := d, active := a, gated := g, initErr := e, nextErr := n }
  | _ => none

def parseChain (s : String) : Option (List Spec) :=
  if s = "gjkr" then some gjkrChain
  else if s = "result" then some resultChain
  else (s.splitOn ",").mapM parseSpec

def parseEv (s : String) : Option Ev :=
  if s = "r" then some .release else
  match s.toList with
  | 'b' :: r => (String.ofList r).toNat?.map .block
  | 'm' :: r => (String.ofList r).toNat?.map .msg
  | _ => none

structure Op where
  specs : List Spec
  h0 : Nat
  start : Nat
  race : Bool
  evs : List Ev

def parseOp (line : String) : Option Op :=
  match splitWs line with
  | ["sync", ch, h0, st, mode, evs] => do
    let specs ← parseChain ch
    let h0 ← h0.toNat?
    let st ← st.toNat?
    let evs ← (splitList evs).mapM parseEv
    if mode ≠ "det" && mode ≠ "race" then none
    if specs.isEmpty then none
    pure { specs, h0, start := st, race := mode = "race", evs }
  | _ => none

def showCall : Call → String
  | .wait h => s!"W{h}"
  | .arm h => s!"A{h}"

def showRes : Res → String
  | .running => "running"
  | .final k _ => s!"final:{k}"
  | .errInitiate => "err:initiate"
  | .errNext => "err:next"

def showRec (k : Nat) (r : Rec) : String :=
  let i := match r.initH with | some h => toString h | none => "-"
  let c := if r.initH.isSome then "11" else "00"
  s!"{k}/E{r.entryH}/I{i}/M{showList r.msgs}/C{c}"

def enumFrom' {α} : Nat → List α → List (Nat × α)
  | _, [] => []
  | n, a :: as => (n, a) :: enumFrom' (n + 1) as

def dkgLine (n : Nat) : String :=
  ";".intercalate ((List.range n).map fun i => s!"m{i + 1}={showList (dkgNominal.map showCall)}")

def parseDkg (line : String) : Option Nat :=
  match splitWs line with
  | ["dkg", n, slow, late] => do
    let n ← n.toNat?
    let slow ← slow.toNat?
    let late ← late.toNat?
    if n < 2 || n > 5 || slow > n || late > 4 then none else some n
  | _ => none

def model (line : String) : String :=
  match parseDkg line with
  | some n => dkgLine n
  | none =>
  match parseOp line with
  | none => "bad-op"
  | some op =>
    match op.specs with
    | [] => "bad-op"
    | s :: rest =>
      let c := run op.h0 op.start s rest op.evs
      if op.race && c.racy then "SKIP" else
      let recs := enumFrom' 0 (c.done ++ [c.crec])
      let st := ";".intercalate (recs.map fun (k, r) => showRec k r)
      let e := match c.res with | .final _ e => e | _ => 0
      let base := s!"st={st} bc={showList (c.calls.map showCall)} end={e} res={showRes c.res} drop={showList c.dropped} left={c.buf.length}"
      if op.race then
        let q := recs.flatMap fun (k, r) => r.msgs.map fun _ => s!"{k}:{k}"
        base ++ s!" q={showList q}"
      else base

/-! parsing of the implementation's observation for the monitor -/

def dropPrefix (p s : String) : Option String :=
  if s.startsWith p then some (s.drop p.length).toString else none

def parseCall (s : String) : Option Call :=
  match s.toList with
  | 'W' :: r => (String.ofList r).toNat?.map .wait
  | 'A' :: r => (String.ofList r).toNat?.map .arm
  | _ => none

def parseObsRec (s : String) : Option ObsRec :=
  match s.splitOn "/" with
  | [_, e, i, m, c] => do
    let e ← (← dropPrefix "E" e).toNat?
    let i ← dropPrefix "I" i
    let m ← parseNats (← dropPrefix "M" m)
    let c ← dropPrefix "C" c
    pure { entryH := e, initH := i.toNat?, msgs := m,
           ctxLive := c.toList.head? = some '1', ctxCancelled := c.toList.getLast? = some '1' }
  | _ => none

def parseRes (s : String) (e : Nat) : Option Res :=
  if s = "err:initiate" then some .errInitiate
  else if s = "err:next" then some .errNext
  else match s.splitOn ":" with
    | ["final", k] => k.toInt?.map fun k => .final k.toNat e   -- final:-1 (foreign state) → 0
    | _ => none

def parseQ (s : String) : Option (List (Nat × Nat)) :=
  (splitList s).mapM fun t =>
    match t.splitOn ":" with
    | [a, b] => do pure ((← a.toNat?), (← b.toNat?))
    | _ => none

def parseObs (s : String) : Option (Obs × List (Nat × Nat)) :=
  match splitWs s with
  | st :: bc :: en :: res :: dr :: lf :: rest => do
    let st ← dropPrefix "st=" st
    let recs ← (st.splitOn ";").mapM parseObsRec
    let calls ← (splitList (← dropPrefix "bc=" bc)).mapM parseCall
    let e ← (← dropPrefix "end=" en).toNat?
    let res ← parseRes (← dropPrefix "res=" res) e
    let dr ← parseNats (← dropPrefix "drop=" dr)
    let lf ← (← dropPrefix "left=" lf).toNat?
    let q ← match rest with
      | [q] => parseQ (← dropPrefix "q=" q)
      | [] => some []
      | _ => none
    pure ({ recs, calls, endBlock := e, res, dropped := dr, left := lf }, q)
  | _ => none

def monitor (op obs : String) : String :=
  match parseDkg op with
  | some n => if obs = dkgLine n then "ok"
              else "FAIL members-started-at-the-same-block-do-not-issue-the-nominal-block-waits (ExecuteDKG chaining) " ++ obs
  | none =>
  match parseOp op with
  | none => if obs = "bad-op" then "ok" else "FAIL bad-op"
  | some _ =>
  if obs = "HANG" then "FAIL machine-hung (never reached the expected quiescent point / never consumed a delivered message)" else
  if obs.startsWith "PANIC" then "FAIL panic" else
  match parseOp op with
  | none => "FAIL bad-op"
  | some o =>
    match parseObs obs with
    | none => "FAIL unparsable-observation"
    | some (ob, q) =>
      if !holds o.start o.specs o.evs ob then "FAIL block-window-rule"
      else if !q.all (fun (k, e) => e ≤ k) then "FAIL message-handed-to-earlier-state"
      else if !o.race && !q.isEmpty then "FAIL unexpected-q"
      else "ok"

def main (args : List String) : IO UInt32 := driverMain model monitor args
