import KeepVerif.DriverLib
import KeepVerif.Model.C25
open KeepVerif KeepVerif.C25

def badWallet : Nat := 9
def nWallets : Nat := 6
def validWallet (w : Nat) : Bool := w < nWallets || w == badWallet

def busyList (s : St) : String := showList ((List.range nWallets).filter s.inMap)

/-- seq: state, results, any accepted -/
def seqStep (acc : Option (St × List String × Bool)) (tok : String) : Option (St × List String × Bool) := do
  let (s, res, anyOk) ← acc
  match tok.toList with
  | c :: rest =>
    let ps := (String.ofList rest).splitOn ":"
    let w ← (ps.head?).bind String.toNat?
    if !validWallet w then none
    if c = 'd' then
      if ps.length != 2 then none
      if w == badWallet then pure (s, res ++ ["err"], anyOk)
      else match step s (.dispatch w) with
        | (s', some true) => pure (s', res ++ ["ok"], true)
        | (s', _) => pure (s', res ++ ["busy"], anyOk)
    else if c = 's' then
      if ps.length != 1 then none
      if w != badWallet && 0 < s.active w then pure ((step s (.start w)).1, res ++ ["started"], anyOk)
      else pure (s, res ++ ["none"], anyOk)
    else if c = 'e' then
      if ps.length != 2 then none
      if w == badWallet then pure (s, res ++ ["none"], anyOk)
      else
        let (s', ended) := endAction s w
        pure (s', res ++ [if ended then "end" else "none"], anyOk)
    else none
  | [] => none

def parseRound (s : String) : Option (List (Nat × Nat) × List Nat) :=
  match s.splitOn ";" with
  | [plan, rel] => do
    let plan ← (splitList plan).mapM fun e =>
      match (e.splitOn ":").mapM String.toNat? with
      | some [w, n] => if w < nWallets && 1 ≤ n && n ≤ 32 then some (w, n) else none
      | _ => none
    let rel ← parseNats rel
    if rel.any (· ≥ nWallets) then none
    pure (plan, rel)
  | _ => none

def concRound (acc : St × List String × Bool) (rd : List (Nat × Nat) × List Nat) : St × List String × Bool :=
  let (s, out, anyOk) := acc
  let (s, rs, anyOk) := rd.1.foldl (fun (a : St × List String × Bool) (wn : Nat × Nat) =>
    let (s', ok) := dispatchMany a.1 wn.1 wn.2
    (s', a.2.1 ++ [s!"{wn.1}:{ok}:{wn.2 - ok}"], a.2.2 || ok > 0)) (s, [], anyOk)
  let s := rd.2.foldl (fun s w => (endAction s w).1) s
  (s, out ++ [showList rs], anyOk)

def model (line : String) : String :=
  match splitWs line with
  | ["seq", steps] =>
    match (splitList steps).foldl seqStep (some (St.init, [], false)) with
    | some (s, res, anyOk) => s!"{showList res} busy={busyList s} maxconc={if anyOk then 1 else 0}"
    | none => "bad-op"
  | ["conc", rounds] =>
    match (rounds.splitOn "/").mapM parseRound with
    | some rds =>
      let (_, out, anyOk) := rds.foldl concRound (St.init, [], false)
      s!"{"/".intercalate out} maxconc={if anyOk then 1 else 0}"
    | none => "bad-op"
  | ["storm", _, _, _, _] => "SKIP"
  | _ => "bad-op"

def field (pre s : String) : Option Nat :=
  if s.startsWith pre then (s.drop pre.length).toString.toNat? else none

/-- every observation ends with maxconc=<n>: the core of the property, checked on what the
    implementation did in every scenario -/
def maxconcOf (obs : String) : Option Nat :=
  (splitWs obs).findSome? (field "maxconc=")

def monitor (op obs : String) : String :=
  match splitWs op with
  | ["storm", _, _, _, _] =>
    match splitWs obs with
    | [m, o, e, b, t, w] =>
      match field "maxconc=" m, field "ok=" o, field "exec=" e, field "busy=" b, field "total=" t,
            field "wallets=" w with
      | some m, some o, some e, some b, some t, some w =>
        if holdsStorm m o e b t w then "ok"
        else if m > 1 then "FAIL two-actions-of-one-wallet-at-the-same-time"
        else "FAIL dispatch-accounting"
      | _, _, _, _, _, _ => "FAIL unparsable-observation"
    | _ => "FAIL unparsable-observation"
  | ["seq", _] | ["conc", _] =>
    if model op = "bad-op" then (if obs = "bad-op" then "ok" else "FAIL bad-op") else
    match maxconcOf obs with
    | some m =>
      if m > 1 then "FAIL two-actions-of-one-wallet-at-the-same-time"
      else if (splitWs obs).any (fun t => (t.splitOn ",").any (· == "stuck")) then "FAIL wallet-not-released"
      else "ok"
    | none => "FAIL unparsable-observation"
  | _ => if obs = "bad-op" then "ok" else "FAIL bad-op"

def main (args : List String) : IO UInt32 := driverMain model monitor args
