#!/bin/sh
# Offline setup after a fresh restore: build the Lean project (all property theorems + model
# drivers) and warm the Go build cache for the harness binaries. Every check rebuilds what it
# needs from /repo's working tree anyway; a failure here is reported by the affected check.
cd "$(dirname "$0")"
export GOFLAGS=-mod=mod GOPROXY=off GOSUMDB=off GOTOOLCHAIN=local
mkdir -p bin evidence replay .work
TARGETS=$(python3 - <<'P'
import json,glob
t=[]
for f in sorted(glob.glob('props/C*.json')):
    c=json.load(open(f))
    t+=c.get('lean_targets',[])+[c.get('driver','drv'+c['id'])]
print(' '.join(dict.fromkeys(t)))
P
)
./lk build $TARGETS 2>&1 | tail -15
./harness/mkmod.sh $PWD/.work/mod-setup/harness.mod
MOD=-modfile=$PWD/.work/mod-setup/harness.mod
cd harness
for d in c[0-9][0-9]; do
  [ -f "$d/main.go" ] || continue
  ID=$(echo $d | tr c C)
  [ -f ../props/$ID.json ] || continue
  if grep -q '"race": *true' ../props/$ID.json 2>/dev/null; then
    go build $MOD -tags verif -race -o ../bin/$d-race ./$d || echo "setup: harness $d failed to build"
  else
    go build $MOD -tags verif -o ../bin/$d ./$d || echo "setup: harness $d failed to build"
  fi
done
echo setup done
exit 0
