#!/bin/sh
# Offline setup after a fresh restore: build the Lean project (all theorems + drivers) and
# warm the Go build cache for the harness binaries. Checks rebuild what they need anyway.
set -e
cd "$(dirname "$0")"
export GOFLAGS=-mod=mod GOPROXY=off GOSUMDB=off GOTOOLCHAIN=local
mkdir -p bin evidence replay .work
(cd lean && lake build 2>&1 | tail -5)
./harness/mkmod.sh $PWD/.work/mod-setup/harness.mod
MOD=-modfile=$PWD/.work/mod-setup/harness.mod
cd harness
for d in c[0-9][0-9]; do
  [ -f "$d/main.go" ] || continue
  if grep -q "\"race\": true" ../props/$(echo $d | tr c C).json 2>/dev/null; then
    go build $MOD -tags verif -race -o ../bin/$d-race ./$d || echo "setup: harness $d failed to build"
  else
    go build $MOD -tags verif -o ../bin/$d ./$d || echo "setup: harness $d failed to build"
  fi
done
echo setup done
